"""C17 — copies and pickles are faithful and independent.
Correspondence: Lean `ParamVerif.Copy` (object graph, watcher tables, `__setstate__` as written,
graph copy) vs `copy.deepcopy` / `pickle` on real Parameterized objects of the module-level classes
below; oracle = lean/ParamVerif/Store/CopySpec.lean on what the real code did."""
import contextlib
import copy
import functools
import glob
import json
import os
import pickle
import re

import param

ID = 'C17'
PROPS_FILE = 'ParamVerif/Props/C17.lean'
DRIVER = 'Driver/C17.lean'
SOURCES = [('param/parameterized.py', 'Parameterized.__getstate__'), ('param/parameterized.py', 'Parameterized.__setstate__'),
           ('param/parameterized.py', 'Parameter.__getstate__'), ('param/parameterized.py', 'Parameter.__setstate__'),
           ('param/parameterized.py', '_m_caller'), ('param/parameterized.py', '_InstancePrivate'),
           ('param/parameterized.py', 'Parameters._update_deps'), ('param/parameterized.py', 'Parameters._watch_group'),
           ('param/parameterized.py', 'Parameters._resolve_dynamic_deps'), ('param/parameterized.py', 'Parameters.unwatch'),
           ('param/parameterized.py', '_skip_event'), ('param/parameterized.py', 'Parameter.__set__')]
BUDGET_S = {'quick': 50, 'thorough': 400}
EXHAUSTIVE = {'quick': False, 'thorough': False}
TRUSTED = [
    'statements in lean/ParamVerif/Props/C17.lean',
    'spec-side oracle lean/ParamVerif/Store/CopySpec.lean (snapshot isomorphism, no shared object, side-local logs, twin)',
    'harness/props/c17.py adapter: canonical snapshot of everything reachable from a root (values via getattr, '
    '_param__private.values/.params/.watchers/.dynamic_watchers, __dict__), objects named by depth-first order, '
    'method invocations logged by the methods themselves; classification of the source shape of __setstate__',
    'CPython copy.deepcopy / pickle graph traversal with memo (modelled as an isomorphic copy of the reachable graph)',
    'correspondence is differential testing: model = code only on the histories executed',
]
ASSUMPTIONS = [
    'classes Sub / Top / Plain below: Integer and list-valued parameters, Selectors declared without objects (by value / by name), sub-objects in ClassSelector parameters, '
    'explicit watchers (bound method, functools.partial of a bound method, watcher of the Parameter attribute bounds), an attribute in __slots__, dependencies depends("p", "q") / depends("a.x") / depends("mid.leaf.x") / depends("n", "mid.z"), batched param.update, one-level dependencies depends("p") / depends("a.x") / depends("a.y", "b.y") with watch=True, explicit bound-method watchers',
    'deeper dependency paths (their parent-notification callback is a closure: not picklable), watchers with what != value, '
    'lambdas, references (allow_refs), async methods and class-level watchers are outside the model',
    'a copy taken inside an open batch (case key inbatch): the model has no batch state on objects, it sees the completed batched update followed by the '
    'copy; the harness takes the copy inside `batch_call_watchers(obj)` after the assignments and compares the copy with a twin whose batch was completed, '
    'and what the original delivers on leaving the batch with what the twin, which nobody copied, delivered (observation `batch_exit`, part of the oracle; the model predicts both)',
    'a post operation `within` makes its assignments inside a batch_call_watchers / discard_events context opened on ANOTHER object of the same graph; '
    'batching is a matter of the object whose parameter is set, so the model runs the assignments without the context',
]
RULE = ('histories of object creation, sets, in-place mutations, per-instance Parameter edits, ordinary attributes, explicit '
        'watchers and sub-object attachment/detachment (pre) x copy.deepcopy and pickle protocols 2-5 of the root x histories '
        'applied afterwards to the original and to the copy (post); compared: success of the copy, canonical snapshots of '
        'both graphs at copy time and after every later operation, invocation logs with the side of every invoked object, '
        'and the same copy-side operations on a twin of the original. non-trivial = the copy succeeded, >=2 post operations, '
        'at least one watcher in the copied graph; distinct = distinct canonical case')
COVERAGE_TARGETS = ['copy:ok', 'pre:slots-attribute-holding-None', 'post:batch-context-on-another-object:copy', 'post:discard-context-on-another-object:copy', 'pre:copy-inside-open-batch', 'pre:copy-inside-open-batch-on-subobject', 'post:copy-taken-in-batch-fires-at-once', 'pre:duplicate-watcher', 'pre:same-class-cross-watcher', 'root:Root3', 'pre:depth2-dependency-wired', 'post:update-batch', 'pre:multi-name-watcher', 'post:replace-leaf-on-copy', 'post:replace-mid-on-copy', 'pre:slot-watcher', 'pre:partial-watcher', 'pre:slots-attribute', 'post:pedit-bounds-with-slot-watcher', 'selector:set-after-copy', 'selector:named-after-copy', 'selector:own-copy-before-copy', 'mech:deepcopy', 'mech:pickle2', 'mech:pickle3', 'mech:pickle4', 'mech:pickle5',
                    'root:Top', 'root:Plain', 'root:Sub', 'pre:sub-attached-with-dependency', 'pre:sub-attached-no-dependency',
                    'pre:detached-again', 'pre:pedit', 'pre:attr', 'pre:explicit-watcher', 'pre:cross-object-watcher',
                    'post:orig', 'post:copy', 'post:attach-new-sub', 'post:log-nonempty']

LOG = []


class Sub(param.Parameterized):
    __slots__ = ['tag']            # an ordinary attribute kept in a slot
    x = param.Integer(0)
    y = param.Integer(0)
    l = param.Parameter([5], instantiate=True)

    @param.depends('x', watch=True)
    def s(self):
        LOG.append((self, 's'))

    @param.depends('x', 'y', watch=True)
    def sxy(self):
        LOG.append((self, 'sxy'))

    def cb(self, *events):
        LOG.append((self, 'cb'))

    def cbt(self, tag, *events):
        LOG.append((self, 'cbt'))


class Top(param.Parameterized):
    __slots__ = ['tag']
    a = param.ClassSelector(class_=Sub, default=None, allow_None=True)
    b = param.ClassSelector(class_=Sub, default=None, allow_None=True)
    n = param.Integer(1, bounds=(0, 100))
    l = param.Parameter([1], instantiate=True)
    choice = param.Selector()
    named = param.Selector(objects={}, check_on_set=False)

    @param.depends('a.x', watch=True)
    def m(self):
        LOG.append((self, 'm'))

    @param.depends('n', watch=True)
    def k(self):
        LOG.append((self, 'k'))

    @param.depends('a.y', 'b.y', watch=True)
    def mb(self):
        LOG.append((self, 'mb'))

    def cb(self, *events):
        LOG.append((self, 'cb'))

    def cbt(self, tag, *events):
        LOG.append((self, 'cbt'))


class Plain(param.Parameterized):
    __slots__ = ['tag']
    a = param.ClassSelector(class_=Sub, default=None, allow_None=True)
    n = param.Integer(1, bounds=(0, 100))
    l = param.Parameter([1], instantiate=True)
    choice = param.Selector()
    named = param.Selector(objects={}, check_on_set=False)

    @param.depends('n', watch=True)
    def k(self):
        LOG.append((self, 'k'))

    def cb(self, *events):
        LOG.append((self, 'cb'))

    def cbt(self, tag, *events):
        LOG.append((self, 'cbt'))


class Leaf(param.Parameterized):
    x = param.Integer(0)
    y = param.Integer(0)

    def cb(self, *events):
        LOG.append((self, 'cb'))


class Mid(param.Parameterized):
    leaf = param.ClassSelector(class_=Leaf, default=None, allow_None=True)
    z = param.Integer(0)

    def cb(self, *events):
        LOG.append((self, 'cb'))


class Root3(param.Parameterized):
    mid = param.ClassSelector(class_=Mid, default=None, allow_None=True)
    n = param.Integer(1, bounds=(0, 100))

    @param.depends('mid.leaf.x', watch=True)
    def m(self):
        LOG.append((self, 'm'))

    @param.depends('n', 'mid.z', watch=True)
    def nz(self):
        LOG.append((self, 'nz'))

    def cb(self, *events):
        LOG.append((self, 'cb'))


PY_CLASSES = [Sub, Top, Plain, Leaf, Mid, Root3]
CLASSES = [
    {'name': 'Sub', 'params': [{'name': 'x', 'default': 0, 'inst': False, 'bounds': None},
                               {'name': 'y', 'default': 0, 'inst': False, 'bounds': None},
                               {'name': 'l', 'default': [5], 'inst': True, 'bounds': None}],
     'methods': [{'name': 's', 'deps': [['x']]}, {'name': 'sxy', 'deps': [['x'], ['y']]}], 'plain': ['cb', 'cbt']},
    {'name': 'Top', 'params': [{'name': 'a', 'default': None, 'inst': True, 'bounds': None},
                               {'name': 'b', 'default': None, 'inst': True, 'bounds': None},
                               {'name': 'n', 'default': 1, 'inst': False, 'bounds': [0, 100]},
                               {'name': 'l', 'default': [1], 'inst': True, 'bounds': None},
                               {'name': 'choice', 'default': None, 'inst': False, 'bounds': None, 'sel': 'choice'},
                               {'name': 'named', 'default': None, 'inst': False, 'bounds': None, 'sel': 'named'}],
     'methods': [{'name': 'm', 'deps': [['a', 'x']]}, {'name': 'k', 'deps': [['n']]}, {'name': 'mb', 'deps': [['a', 'y'], ['b', 'y']]}], 'plain': ['cb', 'cbt']},
    {'name': 'Plain', 'params': [{'name': 'a', 'default': None, 'inst': True, 'bounds': None},
                                 {'name': 'n', 'default': 1, 'inst': False, 'bounds': [0, 100]},
                                 {'name': 'l', 'default': [1], 'inst': True, 'bounds': None},
                                 {'name': 'choice', 'default': None, 'inst': False, 'bounds': None, 'sel': 'choice'},
                                 {'name': 'named', 'default': None, 'inst': False, 'bounds': None, 'sel': 'named'}],
     'methods': [{'name': 'k', 'deps': [['n']]}], 'plain': ['cb', 'cbt']},
]
CLASSES += [
    {'name': 'Leaf', 'params': [{'name': 'x', 'default': 0, 'inst': False, 'bounds': None},
                                {'name': 'y', 'default': 0, 'inst': False, 'bounds': None}],
     'methods': [], 'plain': ['cb']},
    {'name': 'Mid', 'params': [{'name': 'leaf', 'default': None, 'inst': True, 'bounds': None},
                               {'name': 'z', 'default': 0, 'inst': False, 'bounds': None}],
     'methods': [], 'plain': ['cb']},
    {'name': 'Root3', 'params': [{'name': 'mid', 'default': None, 'inst': True, 'bounds': None},
                                 {'name': 'n', 'default': 1, 'inst': False, 'bounds': [0, 100]}],
     'methods': [{'name': 'm', 'deps': [['mid', 'leaf', 'x']]}, {'name': 'nz', 'deps': [['n'], ['mid', 'z']]}], 'plain': ['cb']},
]
MECHS = ['deepcopy', 'pickle2', 'pickle3', 'pickle4', 'pickle5']


def _check_table():
    """the class table sent to the model is the one the real classes have"""
    for K, d in zip(PY_CLASSES, CLASSES):
        names = [n for n in K.param if n != 'name']
        assert names == [p['name'] for p in d['params']], (K, names)
        for p in d['params']:
            P = K.param[p['name']]
            assert bool(P.instantiate) == p['inst'], (K, p)
            assert (list(P.bounds) if getattr(P, 'bounds', None) else None) == p['bounds'], (K, p)
            assert P.default == p['default'], (K, p)
            if p.get('sel'):
                assert isinstance(P, param.Selector) and not P.check_on_set, (K, p)
        got = [[m[0], [[p.name] for p in m[3]] + [dd.spec.split('.') for dd in m[4]]] for m in K.param._depends['watch']]
        assert got == [[m['name'], m['deps']] for m in d['methods']], got


_POLICY = None


def policy():
    """shape of the method-caller line of Parameterized.__setstate__ (a generated fragment in the sense of DESIGN 2.2)"""
    global _POLICY
    if _POLICY is None:
        import inspect
        src = re.sub(r'#[^\n]*', '', inspect.getsource(param.Parameterized.__setstate__))
        src = re.sub(r'\s+', ' ', src)
        m = re.search(r"if hasattr\(fn, '_watcher_name'\):(.*?)elif get_method_owner\(fn\) is watcher\.inst:", src)
        body = m.group(1).strip() if m else ''
        call = 'watcher_args[2] = _m_caller(self, fn._watcher_name)'
        if body == call:
            _POLICY = 'always'
        elif re.fullmatch(r"function = getattr\(fn, 'keywords', \{\}\)\.get\('function'\) if function is None or get_method_owner\(function\) is self: "
                          + re.escape(call), body):
            _POLICY = 'own'
        elif re.fullmatch(r"function = getattr\(fn, 'keywords', \{\}\)\.get\('function'\) if get_method_owner\(function\) is None: "
                          + re.escape(call), body):
            _POLICY = 'unbound'
        else:
            # a shape the translator does not know: the model keeps the behaviour of the current source
            # (the copied caller is kept); whether the code still behaves like that is for the oracle and the
            # correspondence to say
            _UNRECOGNISED.append(body[:160])
            _POLICY = 'unbound'
    return _POLICY


_UNRECOGNISED = []


def extract():
    _check_table()
    pol = policy()
    return {'setstate_method_caller_policy': pol, 'unrecognised_shape': _UNRECOGNISED[:1]}


# ------------------------------------------------------------------ implementation side

def _params(o):
    return [p['name'] for p in CLASSES[PY_CLASSES.index(type(o))]['params']]


def _methods(o):
    return [m['name'] for m in CLASSES[PY_CLASSES.index(type(o))]['methods']]


def _fn_callback(fn):
    """the parent-notification callback of a method caller: (object, attribute) | None"""
    cb = fn.keywords.get('callback') if hasattr(fn, '_watcher_name') else None
    if cb is None:
        return None
    if not (isinstance(cb, functools.partial) and cb.func.__name__ == '_update_deps_of' and len(cb.args) == 2):
        # (the local closure of the source before a036968 lands here: it cannot be inspected)
        return ('closure', None)
    return cb.args


def _fn_owner(fn):
    if hasattr(fn, '_watcher_name'):
        ch = fn.keywords.get('changed')
        if ch is not None:
            if not isinstance(ch, dict):
                raise RuntimeError(f'changed= filter outside the modelled shape: {ch!r}')
            ch = [[k, None if v is None else list(v)] for k, v in ch.items()]
        return fn.keywords['function'].__self__, 'mcaller', fn._watcher_name, ch
    if isinstance(fn, functools.partial):
        return fn.func.__self__, 'partial', fn.func.__name__, None
    return fn.__self__, 'bound', fn.__name__, None


def _slot_watchers(o, p):
    P = o._param__private.params.get(p)
    if P is None:
        return []
    if any(k != 'bounds' for k, v in P.watchers.items() if v):
        raise RuntimeError(f'slot watchers outside the modelled shape: {P.watchers}')
    return P.watchers.get('bounds', [])


def _attrs(o):
    """ordinary attributes as attribute access sees them: __dict__ entries and occupied __slots__"""
    names = set(k for k in o.__dict__ if k != '_param__private')
    for K in type(o).__mro__:
        names.update(K.__dict__.get('__slots__', ()))
    out = []
    for k in sorted(names):
        try:
            out.append((k, getattr(o, k)))
        except AttributeError:
            pass
    return out


def _wlist(o, p):
    return o._param__private.watchers.get(p, {}).get('value', [])


def _children(o):
    out = []
    for p in _params(o):
        v = getattr(o, p)
        if isinstance(v, param.Parameterized):
            out.append(v)
    for p in _params(o):
        for w in _wlist(o, p):
            out += _wrefs(w)
    for p in _params(o):
        for w in _slot_watchers(o, p):
            out += _wrefs(w)
    for m in _methods(o):
        for w in o._param__private.dynamic_watchers.get(m, []):
            out += _wrefs(w)
    return out


def _order(root):
    stack, seen = [root], []
    while stack:
        x = stack.pop(0)
        if any(x is s for s in seen):
            continue
        seen.append(x)
        stack = _children(x) + stack
    return seen


def _label(order, o):
    for i, x in enumerate(order):
        if x is o:
            return i
    return len(order)


def _cells(order):
    out = []
    for o in order:
        vals = [getattr(o, p) for p in _params(o)] + [v for k, v in _attrs(o)]
        for v in vals:
            if isinstance(v, list) and not any(v is c for c in out):
                out.append(v)
    return out


def _val(v, order, cells):
    if v is None:
        return None
    if isinstance(v, bool):
        raise RuntimeError('bool value')
    if isinstance(v, int):
        return v
    if isinstance(v, list):
        return {'c': _label(cells, v), 'v': list(v)}
    if isinstance(v, param.Parameterized):
        return {'o': _label(order, v)}
    raise RuntimeError(f'value outside the modelled universe: {v!r}')


def _sel_view(o, name):
    """what the object's Selector lists, read without creating the per-instance Parameter copy"""
    P = o._param__private.params.get(name) or type(o).param[name]
    names = P.names
    if any(k != f'k{v}' for k, v in names.items()) or any(not isinstance(v, int) for v in P._objects):
        raise RuntimeError(f'Selector contents outside the modelled shape: {P._objects!r} {names!r}')
    return [list(P._objects), list(names.values())]


def _wrow(w, order, what):
    own, kind, meth, changed = _fn_owner(w.fn)
    if w.what != what or w.mode != 'args' or w.queued or not w.onlychanged:
        raise RuntimeError(f'watcher outside the modelled shape: {w}')
    cb = _fn_callback(w.fn)
    if cb is not None:
        cb = [len(order) if cb[0] == 'closure' else _label(order, cb[0]), cb[1]]
    return [_label(order, w.inst), kind, _label(order, own), meth, changed, w.precedence, cb]


def _wrefs(w):
    cb = _fn_callback(w.fn)
    return [w.inst, _fn_owner(w.fn)[0]] + ([cb[0]] if cb is not None and cb[0] != 'closure' else [])


def snapshot(root):
    order = _order(root)
    cells = _cells(order)
    snap = []
    for o in order:
        priv = o._param__private
        ws = []
        for p in _params(o):
            l = _wlist(o, p)
            if l:
                ws.append([p, [_wrow(w, order, 'value') for w in l]])
        dyn = []
        for m in _methods(o):
            l = priv.dynamic_watchers.get(m, [])
            if l:
                row = []
                for w in l:
                    own, kind, meth, changed = _fn_owner(w.fn)
                    found = all(any(w == x for x in _wlist(w.inst, n)) for n in w.parameter_names)
                    row.append([_label(order, w.inst), _label(order, own), meth, changed, found])
                dyn.append([m, row])
        snap.append({
            'cls': type(o).__name__,
            'values': [[p, p in priv.values, _val(getattr(o, p), order, cells)] for p in _params(o)],
            'pcopies': [[p, (list(priv.params[p].bounds) if getattr(priv.params[p], 'bounds', None) is not None else None),
                         bool(priv.params[p].constant), [_wrow(w, order, 'bounds') for w in _slot_watchers(o, p)]]
                        for p in _params(o) if p in priv.params],
            'sel': [[p['name'], p['name'] in priv.params] + _sel_view(o, p['name'])
                    for p in CLASSES[PY_CLASSES.index(type(o))]['params'] if p.get('sel')],
            'attrs': [[k, _val(v, order, cells)] for k, v in _attrs(o)],
            'watchers': ws, 'dyn': dyn})
    return snap


class _Side:
    def __init__(self):
        self.handles = []
        self.cp = None

    def ref(self, r):
        o = self.handles[r['h']] if 'h' in r else self.cp
        for p in r['path']:
            o = getattr(o, p)
            if not isinstance(o, param.Parameterized):
                raise RuntimeError(f'path component {p} is not an object')
        return o

    def arg(self, a):
        if isinstance(a, dict):
            return self.ref(a['ref'])
        return list(a) if isinstance(a, list) else a

    def run(self, op):
        """execute; returns the invocation log [(object, method)]"""
        del LOG[:]
        o = op['op']
        if o == 'new':
            self.handles.append(PY_CLASSES[op['cls']](**{k: self.arg(v) for k, v in op['kwargs']}))
        elif o == 'set':
            setattr(self.ref(op['o']), op['p'], self.arg(op['a']))
        elif o == 'mutate':
            getattr(self.ref(op['o']), op['p']).append(op['n'])
        elif o == 'pedit':
            P = self.ref(op['o']).param[op['p']]
            if 'constant' in op:
                P.constant = op['constant']
            else:
                P.bounds = None if op['bounds'] is None else tuple(op['bounds'])
        elif o == 'setAttr':
            setattr(self.ref(op['o']), op['name'], self.arg(op['a']))
        elif o == 'mutAttr':
            getattr(self.ref(op['o']), op['name']).append(op['n'])
        elif o == 'selAdd':
            self.ref(op['o']).param[op['p']].objects[f'k{op["n"]}'] = op['n']
        elif o == 'watch':
            # one callable object per (target, callback) unless the operation asks for a `fresh` bound method: two
            # separate watch() calls with the SAME callable are two watchers (the model names a callback by
            # (target, method) either way; __setstate__ must rebuild one Watcher per Watcher, not per callable)
            tgt = self.ref(op['target'])
            if not hasattr(self, '_cbs'):
                self._cbs = {}
            fn = getattr(tgt, op['cb']) if op.get('fresh') else self._cbs.setdefault((id(tgt), op['cb']), getattr(tgt, op['cb']))
            self.ref(op['o']).param.watch(fn, list(op['ps']))
        elif o == 'update':
            self.ref(op['o']).param.update(**{k: self.arg(v) for k, v in op['kvs']})
        elif o == 'within':
            # assignments made while a batch / discard context is open on ANOTHER object: batching is a matter of the
            # object whose parameter is set, so the context must make no difference
            on = self.ref(op['on'])
            body = [(self.ref(b['o']), b['p'], self.arg(b['a'])) for b in op['body']]
            if any(b['op'] != 'set' for b in op['body']):
                raise RuntimeError('within: only assignments')
            if any(t is on for t, _, _ in body):
                ctx = contextlib.nullcontext()
            else:
                ctx = (param.parameterized.batch_call_watchers if op['kind'] == 'batch' else param.parameterized.discard_events)(on)
            with ctx:
                for t, p, v in body:
                    setattr(t, p, v)
        elif o == 'watchPartial':
            self.ref(op['o']).param.watch(functools.partial(getattr(self.ref(op['target']), op['cb']), 'T'), [op['p']])
        elif o == 'watchSlot':
            self.ref(op['o']).param.watch(getattr(self.ref(op['target']), op['cb']), [op['p']], what='bounds')
        else:
            raise RuntimeError(o)
        return list(LOG)


def _copy(o, mech):
    if mech == 'deepcopy':
        return copy.deepcopy(o)
    proto = int(mech[len('pickle'):])
    return pickle.loads(pickle.dumps(o, protocol=proto))


def _reset_class_selectors():
    """cases are independent: the class-level containers of the (empty-declared) Selectors start empty"""
    for K, d in zip(PY_CLASSES, CLASSES):
        for p in d['params']:
            if p.get('sel'):
                P = K.param[p['name']]
                del P._objects[:]
                P.names.clear()


def run_impl(case):
    try:
        _reset_class_selectors()
        main, twin = _Side(), _Side()
        pre = list(case['pre'])
        # `inbatch`: the last operation of the pre-history is a batched update; on the main side the copy is taken
        # INSIDE that batch (`with batch_call_watchers(obj): obj.p = v; ..; copy`), the twin completes the batch first
        batch_op = pre.pop() if case.get('inbatch') else None
        for op in pre:
            main.run(op)
            twin.run(op)
        cm = None
        if batch_op is not None:
            if batch_op['op'] != 'update':
                raise RuntimeError('inbatch needs an update as last pre operation')
            tlog = twin.run(batch_op)
            bobj = main.ref(batch_op['o'])
            del LOG[:]
            cm = param.parameterized.batch_call_watchers(bobj)
            cm.__enter__()
            try:
                for k, v in batch_op['kvs']:
                    setattr(bobj, k, main.arg(v))
            except BaseException:
                cm.__exit__(None, None, None)
                raise
            if LOG:
                cm.__exit__(None, None, None)
                raise RuntimeError('a watcher ran inside the open batch')

        def leave_batch():
            """the original leaves its batch; what it delivers, and what the completed batch of the twin (never copied) delivered"""
            del LOG[:]
            cm.__exit__(None, None, None)
            o1, to = _order(main.ref(case['root'])), _order(twin.ref(case['root']))
            return {'got': [[_label(o1, obj), meth] for obj, meth in LOG], 'twin': [[_label(to, obj), meth] for obj, meth in tlog]}

        root, troot = main.ref(case['root']), twin.ref(case['root'])
        obs = {'copy_err': None, 'orig_at': snapshot(root), 'copy_at': None, 'shared': 0, 'post': []}
        try:
            c = _copy(root, case['mech'])
        except AttributeError:
            obs['copy_err'] = 'AttributeError'
            if cm is not None:
                cm.__exit__(None, None, None)
            return obs
        except Exception as e:
            obs['copy_err'] = 'other:' + type(e).__name__
            if cm is not None:
                cm.__exit__(None, None, None)
            return obs
        if cm is not None:
            obs['batch_exit'] = leave_batch()
        main.cp, twin.cp = c, troot
        obs['copy_at'] = snapshot(c)
        o1, o2 = _order(root), _order(c)
        c1, c2 = _cells(o1), _cells(o2)
        obs['shared'] = sum(1 for x in o1 if any(x is y for y in o2)) + sum(1 for x in c1 if any(x is y for y in c2))
        for p in case['post']:
            side = p['side']
            log = main.run(p['op'])
            o1, o2 = _order(root), _order(c)
            entries = []
            for (obj, meth) in log:
                in1, in2 = any(obj is x for x in o1), any(obj is x for x in o2)
                if in1 and not in2:
                    entries.append(['orig', _label(o1, obj), meth])
                elif in2 and not in1:
                    entries.append(['copy', _label(o2, obj), meth])
                elif in1:
                    entries.append(['both', _label(o1, obj), meth])
                else:
                    entries.append(['none', 0, meth])
            tw = None
            if side != 'orig':
                tlog2 = twin.run(p['op'])
                if side == 'copy':
                    to = _order(troot)
                    tw = {'log': [[_label(to, obj), meth] for obj, meth in tlog2], 'snap': snapshot(troot)}
            obs['post'].append({'side': side, 'log': entries, 'orig': snapshot(root), 'copy': snapshot(c), 'twin': tw})
        return obs
    except Exception as e:
        return {'crash': f'{type(e).__name__}: {e}'[:300]}


# ------------------------------------------------------------------ generation

def H(h, *path):
    return {'h': h, 'path': list(path)}


def CP(*path):
    return {'path': list(path)}


def R(ref):
    return {'ref': ref}


def new(cls, **kw):
    return {'op': 'new', 'cls': cls, 'kwargs': [[k, v] for k, v in kw.items()]}


def set_(o, p, a):
    return {'op': 'set', 'o': o, 'p': p, 'a': a}


def mutate(o, p, n):
    return {'op': 'mutate', 'o': o, 'p': p, 'n': n}


def pedit(o, p, **e):
    return dict({'op': 'pedit', 'o': o, 'p': p}, **e)


def setattr_(o, name, a):
    return {'op': 'setAttr', 'o': o, 'name': name, 'a': a}


def mutattr(o, name, n):
    return {'op': 'mutAttr', 'o': o, 'name': name, 'n': n}


def seladd(o, p, n):
    return {'op': 'selAdd', 'o': o, 'p': p, 'n': n}


def watch(o, p, target, cb='cb'):
    return {'op': 'watch', 'o': o, 'ps': [p] if isinstance(p, str) else list(p), 'target': target, 'cb': cb}


def update(o, **kvs):
    return {'op': 'update', 'o': o, 'kvs': [[k, v] for k, v in kvs.items()]}


def within(kind, on, *body):
    return {'op': 'within', 'kind': kind, 'on': on, 'body': list(body)}


def watchp(o, p, target):
    return {'op': 'watchPartial', 'o': o, 'p': p, 'target': target, 'cb': 'cbt'}


def watchs(o, p, target):
    return {'op': 'watchSlot', 'o': o, 'p': p, 'target': target, 'cb': 'cb'}


def case(pre, root, mech, post, inbatch=False):
    """inbatch: the last pre operation is an `update`; the implementation takes the copy inside that batch"""
    c = {'policy': policy(), 'classes': CLASSES, 'pre': pre, 'root': root, 'mech': mech,
         'post': [{'side': s, 'op': o} for s, o in post]}
    if inbatch:
        c['inbatch'] = True
    return c


SUB, TOP, PLAIN, LEAF, MID, ROOT3 = 0, 1, 2, 3, 4, 5
# the witness of the defect: an attached sub-object carries the watcher of the parent's depends('a.x') method
WITNESS_PRE = [new(SUB, x=1), new(TOP, a=R(H(0)))]


def directed():
    for mech in MECHS:
        yield case(WITNESS_PRE, H(1), mech, [])
        # no sub-object dependency: values, Parameter edits, attributes, own dependencies
        yield case([new(PLAIN, n=5), pedit(H(0), 'n', bounds=[0, 60]), setattr_(H(0), 'extra', [1, 2]), set_(H(0), 'n', 50),
                    mutate(H(0), 'l', 7)], H(0), mech,
                   [('copy', set_(CP(), 'n', 7)), ('orig', set_(H(0), 'n', 8)), ('copy', mutate(CP(), 'l', 9)),
                    ('orig', mutattr(H(0), 'extra', 3)), ('copy', pedit(CP(), 'n', bounds=[0, 70])), ('orig', pedit(H(0), 'n', constant=True)),
                    ('copy', mutattr(CP(), 'extra', 4)), ('orig', mutate(H(0), 'l', 1)), ('copy', set_(CP(), 'l', [3])), ('orig', set_(H(0), 'l', 4))])
        # sub-object attached to a class without sub-object dependencies
        yield case([new(SUB, x=1), new(PLAIN, a=R(H(0))), set_(H(0), 'x', 2), mutate(H(0), 'l', 6)], H(1), mech,
                   [('copy', set_(CP('a'), 'x', 5)), ('orig', set_(H(0), 'x', 6)), ('copy', mutate(CP('a'), 'l', 8)),
                    ('new', new(SUB, x=9)), ('copy', set_(CP(), 'a', R(H(2)))), ('copy', set_(CP('a'), 'x', 3)), ('orig', set_(H(1), 'a', None))])
        # Top without sub-objects, later attached on both sides
        yield case([new(TOP, n=3)], H(0), mech,
                   [('new', new(SUB, x=1)), ('new', new(SUB, x=1)), ('copy', set_(CP(), 'a', R(H(1)))), ('orig', set_(H(0), 'a', R(H(2)))),
                    ('copy', set_(CP('a'), 'x', 4)), ('orig', set_(H(2), 'x', 5)), ('copy', set_(CP(), 'n', 9)),
                    ('new', new(SUB, x=4)), ('copy', set_(CP(), 'a', R(H(3)))), ('new', new(SUB, x=7)), ('copy', set_(CP(), 'a', R(H(4)))),
                    ('copy', set_(CP(), 'a', None)), ('orig', set_(H(0), 'a', None))])
        # attached and detached again before the copy
        yield case([new(SUB, x=1), new(TOP, a=R(H(0)), b=R(H(0))), set_(H(1), 'a', None), set_(H(1), 'b', None)], H(1), mech,
                   [('new', new(SUB, x=2)), ('copy', set_(CP(), 'b', R(H(2)))), ('copy', set_(CP('b'), 'y', 3)), ('orig', set_(H(0), 'x', 9))])
        # explicit watchers: own bound method, bound method of another object (parent watches the sub-object)
        yield case([new(SUB, x=1), new(PLAIN, a=R(H(0))), watch(H(1), 'n', H(1)), watch(H(0), 'x', H(1)), watch(H(0), 'y', H(0))], H(1), mech,
                   [('copy', set_(CP(), 'n', 4)), ('copy', set_(CP('a'), 'x', 2)), ('orig', set_(H(0), 'x', 3)), ('copy', set_(CP('a'), 'y', 2)),
                    ('orig', set_(H(1), 'n', 6))])
        # the same callable object registered by two separate watch() calls on two parameters of one object (and a third
        # time through a fresh bound method): three watchers, each rebuilt on its own
        yield case([new(SUB, x=1), new(PLAIN, a=R(H(0))), watch(H(0), 'x', H(1)), watch(H(0), 'y', H(1)), dict(watch(H(0), 'y', H(1)), fresh=True),
                    watch(H(1), 'n', H(1)), watch(H(1), 'l', H(1))], H(1), mech,
                   [('copy', set_(CP('a'), 'y', 5)), ('copy', set_(CP('a'), 'x', 2)), ('copy', update(CP('a'), x=3, y=6)), ('copy', set_(CP(), 'n', 4)),
                    ('copy', set_(CP(), 'l', [2])), ('orig', set_(H(0), 'y', 7)), ('orig', update(H(0), x=8, y=9))])
        # a Sub on its own
        yield case([new(SUB, x=1), pedit(H(0), 'x', bounds=[0, 9]), setattr_(H(0), 'tag', 3)], H(0), mech,
                   [('copy', set_(CP(), 'x', 2)), ('orig', set_(H(0), 'x', 3)), ('copy', setattr_(CP(), 'tag', [1])), ('copy', mutattr(CP(), 'tag', 2))])
        # Selectors declared without objects: the copy is taken before (and after) the original has its own Parameter copy
        yield case([new(PLAIN)], H(0), mech,
                   [('orig', set_(H(0), 'choice', 5)), ('copy', set_(CP(), 'choice', 6)), ('orig', seladd(H(0), 'named', 1)),
                    ('copy', seladd(CP(), 'named', 2)), ('copy', seladd(CP(), 'named', 2)), ('orig', set_(H(0), 'choice', 5)), ('copy', pedit(CP(), 'choice', constant=False))])
        yield case([new(TOP), set_(H(0), 'choice', 3), seladd(H(0), 'named', 4)], H(0), mech,
                   [('copy', set_(CP(), 'choice', 7)), ('orig', seladd(H(0), 'named', 8)), ('copy', seladd(CP(), 'named', 9)), ('orig', set_(H(0), 'choice', 1))])
        # watchers of a Parameter attribute, functools.partial callbacks, an attribute kept in __slots__
        yield case([new(SUB, x=1), new(PLAIN, a=R(H(0))), watchs(H(1), 'n', H(1)), watchs(H(0), 'x', H(1)), watchp(H(1), 'n', H(1)),
                    watchp(H(0), 'y', H(0)), setattr_(H(1), 'tag', [1]), setattr_(H(0), 'tag', 2), pedit(H(1), 'n', bounds=[0, 50])], H(1), mech,
                   [('copy', pedit(CP(), 'n', bounds=[0, 60])), ('orig', pedit(H(1), 'n', bounds=[0, 70])), ('copy', pedit(CP('a'), 'x', bounds=[0, 9])),
                    ('copy', pedit(CP(), 'n', bounds=[0, 60])), ('copy', set_(CP(), 'n', 4)), ('orig', set_(H(0), 'y', 3)), ('copy', set_(CP('a'), 'y', 3)),
                    ('copy', mutattr(CP(), 'tag', 5)), ('orig', setattr_(H(1), 'tag', 7)), ('copy', pedit(CP(), 'n', bounds=None))])
        # (f) a method / an explicit watcher of several parameters runs once per batched update, on the copy as on the original
        yield case([new(SUB, x=1), watch(H(0), ['x', 'y'], H(0)), set_(H(0), 'y', 2)], H(0), mech,
                   [('copy', update(CP(), x=3, y=4)), ('orig', update(H(0), x=5, y=6)), ('copy', update(CP(), x=3, y=7)), ('copy', set_(CP(), 'x', 8)),
                    ('copy', update(CP(), x=8, y=7))])
        yield case([new(SUB, x=1), new(TOP, a=R(H(0)), b=R(H(0))), watch(H(0), ['x', 'y'], H(1))], H(1), mech,
                   [('copy', update(CP('a'), x=3, y=4)), ('orig', update(H(0), x=5, y=6)), ('copy', update(CP(), n=7))])
        # the same callback registered twice: two watcher objects, both run — also in a batch, also on the copy
        yield case([new(SUB, x=1), watch(H(0), ['x'], H(0)), watch(H(0), ['x'], H(0)), watch(H(0), ['x', 'y'], H(0)), watch(H(0), ['x', 'y'], H(0))], H(0), mech,
                   [('copy', update(CP(), x=3, y=4)), ('orig', update(H(0), x=5, y=6)), ('copy', set_(CP(), 'x', 8))])
        # an object watched by a method of ANOTHER object of the same class
        yield case([new(SUB, x=1), new(SUB, x=2), watch(H(0), ['x'], H(1)), watchp(H(0), 'y', H(1)), new(TOP, a=R(H(0)), b=R(H(1)))], H(2), mech,
                   [('copy', set_(CP('a'), 'x', 5)), ('orig', set_(H(0), 'x', 6)), ('copy', set_(CP('a'), 'y', 7)), ('copy', update(CP('a'), x=1, y=2))])
        # (g) a dependency path through two sub-objects: replacing the leaf / the middle object on the copy rebinds on the copy
        yield case([new(LEAF, x=1), new(MID, leaf=R(H(0))), new(ROOT3, mid=R(H(1)))], H(2), mech,
                   [('new', new(LEAF, x=5)), ('copy', set_(CP('mid'), 'leaf', R(H(3)))), ('copy', set_(CP('mid', 'leaf'), 'x', 7)), ('orig', set_(H(0), 'x', 9)),
                    ('new', new(LEAF, x=2)), ('new', new(MID, leaf=R(H(4)))), ('copy', set_(CP(), 'mid', R(H(5)))), ('copy', set_(CP('mid', 'leaf'), 'x', 3)),
                    ('copy', set_(CP('mid'), 'z', 4)), ('copy', update(CP(), n=5)), ('orig', set_(H(1), 'leaf', None)), ('copy', set_(CP('mid'), 'leaf', None)),
                    ('copy', set_(CP(), 'mid', None))])
        yield case([new(MID), new(ROOT3, mid=R(H(0))), new(LEAF, x=4), set_(H(0), 'leaf', R(H(2))), set_(H(2), 'x', 5)], H(1), mech,
                   [('copy', set_(CP('mid', 'leaf'), 'x', 6)), ('orig', set_(H(2), 'x', 7)), ('new', new(LEAF, x=6)), ('copy', set_(CP('mid'), 'leaf', R(H(3)))),
                    ('copy', set_(CP('mid', 'leaf'), 'x', 1))])
        # both slots, one sub-object shared by two parents
        yield case([new(SUB, x=1), new(SUB, y=2), new(TOP, a=R(H(0)), b=R(H(1))), new(TOP, a=R(H(0)))], H(2), mech, [])
        # after the copy, a batch / discard_events context open on ONE object of the copied graph while ANOTHER one is assigned:
        # every object has a dispatch state of its own, the assignments are delivered at once and in full
        yield case([new(SUB, x=1), new(TOP, a=R(H(0)), n=3)], H(1), mech,
                   [('copy', within('batch', CP(), set_(CP('a'), 'x', 5), set_(CP('a'), 'y', 6))),
                    ('copy', within('discard', CP(), set_(CP('a'), 'x', 7))),
                    ('copy', within('batch', CP('a'), set_(CP(), 'n', 4), set_(CP(), 'n', 5))),
                    ('copy', within('discard', CP('a'), set_(CP(), 'n', 6))),
                    ('orig', within('discard', H(1), set_(H(0), 'x', 9))), ('orig', within('batch', H(0), set_(H(1), 'n', 8), set_(H(1), 'n', 9)))])
        yield case([new(SUB, x=1), new(PLAIN, a=R(H(0))), watch(H(0), ['x', 'y'], H(1)), watch(H(1), 'n', H(0))], H(1), mech,
                   [('copy', within('discard', CP(), set_(CP('a'), 'x', 2), set_(CP('a'), 'y', 3))), ('copy', within('batch', CP('a'), set_(CP(), 'n', 9))),
                    ('orig', within('batch', H(1), set_(H(0), 'y', 4)))])
        # an attribute kept in __slots__ (and one in __dict__) that holds None when the copy is taken
        yield case([new(SUB, x=1), setattr_(H(0), 'tag', None)], H(0), mech,
                   [('copy', setattr_(CP(), 'tag', 3)), ('orig', setattr_(H(0), 'tag', [1])), ('copy', setattr_(CP(), 'tag', None))])
        yield case([new(SUB, x=1), new(PLAIN, a=R(H(0))), setattr_(H(0), 'tag', 5), setattr_(H(0), 'tag', None), setattr_(H(1), 'tag', None),
                    setattr_(H(1), 'extra', None)], H(1), mech,
                   [('copy', setattr_(CP('a'), 'tag', [2])), ('copy', mutattr(CP('a'), 'tag', 3)), ('orig', setattr_(H(1), 'extra', 4)), ('copy', setattr_(CP(), 'extra', [6]))])
        # the copy is taken INSIDE an open batch (534cb04): the copy is not in batch mode and has nothing queued — its
        # watchers fire at once, like those of an object whose batch was completed; the original delivers its queue once
        yield case([new(SUB, x=1), watch(H(0), ['x', 'y'], H(0)), update(H(0), x=3, y=4)], H(0), mech,
                   [('copy', set_(CP(), 'x', 5)), ('orig', set_(H(0), 'x', 6)), ('copy', update(CP(), x=1, y=2)), ('orig', update(H(0), x=2, y=1)),
                    ('copy', set_(CP(), 'y', 7))], inbatch=True)
        yield case([new(SUB, x=1), new(TOP, a=R(H(0)), n=3), update(H(0), x=2)], H(1), mech,          # the batch is open on the sub-object
                   [('copy', set_(CP('a'), 'x', 5)), ('orig', set_(H(0), 'x', 6)), ('copy', set_(CP(), 'n', 4)), ('copy', set_(CP('a'), 'y', 1))], inbatch=True)
        yield case([new(SUB, x=1), new(TOP, a=R(H(0)), n=3), watch(H(1), ['n'], H(1)), update(H(1), n=7)], H(1), mech,
                   [('copy', set_(CP(), 'n', 9)), ('orig', set_(H(1), 'n', 8)), ('copy', set_(CP('a'), 'x', 5)), ('copy', update(CP(), n=2))], inbatch=True)


def _random_case(rng, mech):
    pre, nodes = [], []          # nodes[h] = {'cls', 'a', 'b', 'l': 'list'|'int', 'attrs': {name: kind}}

    def node(cls, a=None, b=None):
        return {'cls': cls, 'a': a, 'b': b, 'l': 'list', 'attrs': {}, 'const': [], 'watched': []}

    nsub = rng.choice([0, 1, 1, 2])
    for _ in range(nsub):
        pre.append(new(SUB, **({'x': rng.randint(0, 3)} if rng.random() < 0.6 else {})))
        nodes.append(node(SUB))
    r = rng.random()
    rcls = TOP if r < 0.6 else PLAIN if r < 0.85 else SUB
    kw = {}
    rn = node(rcls)
    if rcls != SUB and nsub and rng.random() < 0.6:
        h = rng.randrange(nsub)
        kw['a'] = R(H(h))
        rn['a'] = h
    if rcls == TOP and nsub and rng.random() < 0.3:
        h = rng.randrange(nsub)
        kw['b'] = R(H(h))
        rn['b'] = h
    if rcls != SUB and rng.random() < 0.5:
        kw['n'] = rng.randint(0, 50)
    pre.append(new(rcls, **kw))
    nodes.append(rn)
    root = len(nodes) - 1
    if rng.random() < 0.15 and nsub:            # a second parent sharing a sub-object
        pre.append(new(TOP, a=R(H(0))))
        nodes.append(node(TOP, a=0))

    def mutattr_or_set(nd, target_ref):
        nd['attrs']['tag'] = 'int'
        return setattr_(target_ref, 'tag', rng.randint(1, 9))

    def one_op(target_ref, nd, subrefs, fresh):
        """an operation on object `nd` addressed by target_ref; subrefs: {slot: ref of the attached Sub}"""
        cls = nd['cls']
        r = rng.random()
        ints = ['x', 'y'] if cls == SUB else ['n']
        free_ints = [p for p in ints if p not in nd['const']]
        if r < 0.08 and free_ints:
            # one batch: a method depending on several of these parameters must run once
            return update(target_ref, **{p: (rng.randint(0, 5) if p != 'n' else rng.randint(0, 50)) for p in free_ints})
        if r < 0.3 and free_ints:
            p = rng.choice(free_ints)
            return set_(target_ref, p, rng.randint(0, 5) if p != 'n' else rng.randint(0, 50))
        if r < 0.4:
            if nd['l'] == 'list':
                return mutate(target_ref, 'l', rng.randint(1, 9))
            nd['l'] = 'list'
            return set_(target_ref, 'l', [rng.randint(1, 9)])
        if r < 0.47:
            if rng.random() < 0.5:
                nd['l'] = 'int'
                return set_(target_ref, 'l', rng.randint(0, 9))
            nd['l'] = 'list'
            return set_(target_ref, 'l', [rng.randint(1, 9) for _ in range(rng.randint(0, 2))])
        if r < 0.6:
            p = rng.choice(ints)
            e = rng.choice([{'bounds': [0, rng.randint(60, 100)]}, {'bounds': None}, {'constant': False}, {'constant': True}])
            if e.get('constant') is True and p not in nd['const']:
                nd['const'].append(p)
            elif e.get('constant') is False and p in nd['const']:
                nd['const'].remove(p)
            return pedit(target_ref, p, **e)
        if r < 0.72:
            name = rng.choice(['extra', 'tag'])
            if nd['attrs'].get(name) == 'list' and rng.random() < 0.6:
                return mutattr(target_ref, name, rng.randint(1, 9))
            if rng.random() < 0.6:
                nd['attrs'][name] = 'list'
                return setattr_(target_ref, name, [rng.randint(1, 9)])
            nd['attrs'][name] = 'int'
            return setattr_(target_ref, name, rng.randint(1, 9) if rng.random() < 0.75 else None)
        if r < 0.8:
            if cls != SUB and rng.random() < 0.6:
                return (set_(target_ref, 'choice', rng.randint(1, 6)) if rng.random() < 0.5
                        else seladd(target_ref, 'named', rng.randint(1, 6)))
            k = rng.random()
            if k < 0.4:
                # (registering the same callback twice gives two watcher objects: both run, also in a batch)
                ps = ints if (cls == SUB and rng.random() < 0.4) else [rng.choice(ints)]
                nd['watched'].append(ps)
                return watch(target_ref, ps, target_ref)
            if k < 0.7:
                return watchp(target_ref, rng.choice(ints), target_ref)
            return watchs(target_ref, rng.choice(ints), target_ref)
        if cls != SUB:
            slot = rng.choice(['a', 'b'] if cls == TOP else ['a'])
            if r < 0.9 and fresh:
                h = rng.choice(fresh)
                nd[slot] = h
                return set_(target_ref, slot, R(H(h)))
            nd[slot] = None
            return set_(target_ref, slot, None)
        if nd['l'] == 'list':
            return mutate(target_ref, 'l', rng.randint(1, 9))
        nd['attrs']['tag'] = 'int'
        return setattr_(target_ref, 'tag', rng.randint(1, 9))

    # pre-history on the root, its sub-objects and the free subs
    for _ in range(rng.randint(0, 7)):
        h = rng.choice([root] * 3 + list(range(len(nodes))))
        nd = nodes[h]
        op = one_op(H(h), nd, {}, [i for i in range(nsub)])
        if h == root:
            pass
        elif op['op'] in ('watch', 'watchPartial', 'watchSlot') and nd['cls'] == SUB and nsub == 2 and h < 2 and rng.random() < 0.35:
            op = dict(op, target=H(1 - h))                           # an object of the SAME class watches this one
        elif op['op'] in ('watch', 'watchPartial', 'watchSlot') and nd['cls'] == SUB and rng.random() < 0.5:
            op = dict(op, target=H(root))                            # the root watches a sub-object explicitly
        pre.append(op)
    # sometimes the copy is taken inside an open batch on the root or on one of the other objects
    inbatch = False
    if rng.random() < 0.15:
        h = rng.choice([root, root] + list(range(len(nodes))))
        ints = ['x', 'y'] if nodes[h]['cls'] == SUB else ['n']
        free_ints = [p for p in ints if p not in nodes[h]['const']]
        if free_ints:
            ps = free_ints if rng.random() < 0.5 else [rng.choice(free_ints)]
            pre.append(update(H(h), **{p: (rng.randint(0, 5) if p != 'n' else rng.randint(0, 50)) for p in ps}))
            inbatch = True
    # post histories
    import copy as _c
    cn = _c.deepcopy(nodes)            # copy-side shadow (indices are pre handles, only root-reachable ones are used)
    post = []
    fresh_owner = {}                   # post-created handle -> 'free' | 'orig' | 'copy'
    nh = len(nodes)
    for _ in range(rng.randint(2, 9)):
        r = rng.random()
        if r < 0.18:
            post.append(('new', new(SUB, x=rng.randint(0, 5))))
            fresh_owner[nh] = 'free'
            nodes.append(node(SUB))
            cn.append(node(SUB))
            nh += 1
            continue
        side = 'copy' if rng.random() < 0.55 else 'orig'
        shadow = cn if side == 'copy' else nodes
        rnode = shadow[root]
        free = [h for h, s in fresh_owner.items() if s in ('free', side)]
        # choose the object: the root or an attached sub-object
        slots = [s for s in ('a', 'b') if rnode.get(s) is not None]
        if slots and rng.random() < 0.12:
            # a batch / discard context on one object of the graph while another one is assigned
            sl = rng.choice(slots)
            sub_nd, sub_ref = shadow[rnode[sl]], (CP(sl) if side == 'copy' else H(root, sl))
            root_ref = CP() if side == 'copy' else H(root)
            (on_ref, tgt_ref, tgt_nd) = (root_ref, sub_ref, sub_nd) if rng.random() < 0.5 else (sub_ref, root_ref, rnode)
            t_ints = [p for p in (['x', 'y'] if tgt_nd['cls'] == SUB else ['n']) if p not in tgt_nd['const']]
            if t_ints:
                body = [set_(tgt_ref, rng.choice(t_ints), rng.randint(0, 5)) for _ in range(rng.randint(1, 3))]
                post.append((side, within(rng.choice(['batch', 'discard']), on_ref, *body)))
            continue
        if slots and rng.random() < 0.45:
            s = rng.choice(slots)
            nd = shadow[rnode[s]]
            ref = CP(s) if side == 'copy' else H(root, s)
            op = one_op(ref, nd, {}, [])
            if op['op'] in ('watch', 'watchPartial', 'watchSlot'):
                continue
        else:
            ref = CP() if side == 'copy' else H(root)
            op = one_op(ref, rnode, {}, free)
            if op['op'] == 'set' and isinstance(op['a'], dict):
                fresh_owner[op['a']['ref']['h']] = side
        post.append((side, op))
    return case(pre, H(root), mech, post, inbatch=inbatch)


def _random_case3(rng, mech):
    """Root3 -> Mid -> Leaf with depends('mid.leaf.x') and depends('n', 'mid.z'): attach / replace / detach the
    middle object and the leaf, before and after the copy, on both sides"""
    pre = []
    tree = {'mid': None}                       # shadow: root -> {'mid': None | {'leaf': bool}}
    h = 0
    mid_h = None
    if rng.random() < 0.8:
        leaf = rng.random() < 0.7
        if leaf:
            pre.append(new(LEAF, x=rng.randint(0, 3)))
            h += 1
            pre.append(new(MID, leaf=R(H(h - 1))))
        else:
            pre.append(new(MID))
        mid_h = h
        h += 1
        tree['mid'] = {'leaf': leaf}
    pre.append(new(ROOT3, **({'mid': R(H(mid_h))} if mid_h is not None else {})))
    root = h
    h += 1

    def ops_for(side, t, hcount, out):
        """append one operation on `side` ('pre' addresses the original by handle); returns the new handle count"""
        ref = (lambda *p: CP(*p)) if side == 'copy' else (lambda *p: H(root, *p))
        tagged = lambda op: out.append(op if side == 'pre' else (side, op))
        fresh = lambda op: out.append(op if side == 'pre' else ('new', op))
        r = rng.random()
        if r < 0.25 and t['mid'] and t['mid']['leaf']:
            tagged(set_(ref('mid', 'leaf'), rng.choice(['x', 'x', 'y']), rng.randint(0, 5)))
        elif r < 0.35 and t['mid']:
            tagged(set_(ref('mid'), 'z', rng.randint(0, 5)))
        elif r < 0.45:
            tagged(update(ref(), n=rng.randint(0, 50)) if rng.random() < 0.5 else set_(ref(), 'n', rng.randint(0, 50)))
        elif r < 0.65 and t['mid']:
            if rng.random() < 0.75:
                fresh(new(LEAF, x=rng.randint(0, 5)))
                tagged(set_(ref('mid'), 'leaf', R(H(hcount))))
                hcount += 1
                t['mid']['leaf'] = True
            else:
                tagged(set_(ref('mid'), 'leaf', None))
                t['mid']['leaf'] = False
        elif r < 0.9:
            k = rng.random()
            if k < 0.45:
                fresh(new(LEAF, x=rng.randint(0, 5)))
                fresh(new(MID, leaf=R(H(hcount))))
                tagged(set_(ref(), 'mid', R(H(hcount + 1))))
                hcount += 2
                t['mid'] = {'leaf': True}
            elif k < 0.75:
                fresh(new(MID))
                tagged(set_(ref(), 'mid', R(H(hcount))))
                hcount += 1
                t['mid'] = {'leaf': False}
            else:
                tagged(set_(ref(), 'mid', None))
                t['mid'] = None
        else:
            tagged(pedit(ref(), 'n', bounds=[0, rng.randint(60, 100)]))
        return hcount

    for _ in range(rng.randint(0, 4)):
        h = ops_for('pre', tree, h, pre)
    import copy as _c
    ctree = _c.deepcopy(tree)
    post = []
    for _ in range(rng.randint(2, 8)):
        side = 'copy' if rng.random() < 0.6 else 'orig'
        h = ops_for(side, ctree if side == 'copy' else tree, h, post)
    return case(pre, H(root), mech, post)


def cases(rng, tier, worker, nworkers):
    if worker == 0:
        for f in sorted(glob.glob(os.path.join(os.path.dirname(__file__), '..', '..', 'corpus', 'C17', '*.json'))):
            yield dict(json.load(open(f))['case'], policy=policy(), classes=CLASSES)
        yield from directed()
    n_random = 1700 if tier == "quick" else 40000 // nworkers
    for j in range(n_random):
        yield (_random_case3 if j % 4 == 3 else _random_case)(rng, MECHS[j % len(MECHS)])


# ------------------------------------------------------------------ reporting

def _has_foreign_dep_watcher(snap):
    """some object of the graph carries a depends-watcher whose method belongs to another object"""
    return any(w[1] == 'mcaller' and w[0] != w[2] for o in snap for _, ws in o['watchers'] for w in ws)


def tags(case, impl):
    t = ['mech:' + case['mech'], f'pre={min(len(case["pre"]), 9)}', f'post={min(len(case["post"]), 9)}']
    if isinstance(impl, dict) and 'orig_at' in impl:
        snap = impl['orig_at']
        t.append('root:' + snap[0]['cls'])
        t.append('copy:ok' if impl['copy_err'] is None else 'copy:' + impl['copy_err'])
        attached = any(isinstance(v, dict) and 'o' in v for _, _, v in snap[0]['values'])
        if attached:
            t.append('pre:sub-attached-with-dependency' if _has_foreign_dep_watcher(snap) else 'pre:sub-attached-no-dependency')
        if any(o['pcopies'] and any(b != [0, 100] and b is not None or c for _, b, c, _sw in o['pcopies']) for o in snap):
            t.append('pre:pedit')
        if any(o['attrs'] for o in snap):
            t.append('pre:attr')
        if any(w[1] == 'bound' for o in snap for _, ws in o['watchers'] for w in ws):
            t.append('pre:explicit-watcher')
        if any(w[1] == 'partial' for o in snap for _, ws in o['watchers'] for w in ws):
            t.append('pre:partial-watcher')
        if any(sw for o in snap for _, _, _, sw in o['pcopies']):
            t.append('pre:slot-watcher')
        if any(k == 'tag' for o in snap for k, _ in o['attrs']):
            t.append('pre:slots-attribute')
        if any(k == 'tag' and v is None for o in snap for k, v in o['attrs']):
            t.append('pre:slots-attribute-holding-None')
        if any(w[1] == 'bound' and w[0] != w[2] for o in snap for _, ws in o['watchers'] for w in ws):
            t.append('pre:cross-object-watcher')
        sets = [op for op in case['pre'] if op['op'] == 'set' and op['p'] in ('a', 'b') and op['a'] is None]
        if sets:
            t.append('pre:detached-again')
        if any(own for o in snap for _, own, _, _ in o.get('sel', [])):
            t.append('selector:own-copy-before-copy')
        if any(ws.count(w) > 1 for o in snap for _, ws in o['watchers'] for w in ws):
            t.append('pre:duplicate-watcher')
        if any(w[1] in ('bound', 'partial') and w[0] != w[2] and snap[w[0]]['cls'] == snap[w[2]]['cls']
               for o in snap for _, ws in o['watchers'] for w in ws if w[0] < len(snap) and w[2] < len(snap)):
            t.append('pre:same-class-cross-watcher')
        if any(w[6] is not None for o in snap for _, ws in o['watchers'] for w in ws):
            t.append('pre:depth2-dependency-wired')
        if len(set(id(w) for o in snap for _, ws in o['watchers'] for w in ws)) >= 0 and any(
                sum(1 for _, ws2 in o['watchers'] if w in ws2) > 1 for o in snap for _, ws in o['watchers'] for w in ws):
            t.append('pre:multi-name-watcher')
        if case.get('inbatch'):
            t.append('pre:copy-inside-open-batch')
            if case['pre'][-1]['o'] != case['root']:
                t.append('pre:copy-inside-open-batch-on-subobject')
            if any(p['side'] == 'copy' and po['log'] for p, po in zip(case['post'], impl.get('post', []))):
                t.append('post:copy-taken-in-batch-fires-at-once')
        for p, po in zip(case['post'], impl.get('post', [])):
            t.append('post:' + p['side'])
            if p['op']['op'] == 'update':
                t.append('post:update-batch')
            if p['op']['op'] == 'within':
                t.append(f"post:{p['op']['kind']}-context-on-another-object:{p['side']}")
            if p['side'] == 'copy' and p['op']['op'] == 'set' and p['op']['p'] == 'leaf':
                t.append('post:replace-leaf-on-copy')
            if p['side'] == 'copy' and p['op']['op'] == 'set' and p['op']['p'] == 'mid':
                t.append('post:replace-mid-on-copy')
            if p['op']['op'] == 'pedit' and 'bounds' in p['op'] and po['log']:
                t.append('post:pedit-bounds-with-slot-watcher')
            if p['op']['op'] == 'selAdd':
                t.append('selector:named-after-copy')
            if p['op']['op'] == 'set' and p['op']['p'] == 'choice':
                t.append('selector:set-after-copy')
            if po['log']:
                t.append('post:log-nonempty')
            if p['op']['op'] == 'set' and isinstance(p['op']['a'], dict):
                t.append('post:attach-new-sub')
    return t


def nontrivial(case, impl, resp):
    if not isinstance(impl, dict) or impl.get('copy_err') is not None or 'orig_at' not in impl:
        return False
    return len(impl['post']) >= 2 and any(o['watchers'] for o in impl['orig_at'])


def shrink(case):
    pre, post = case['pre'], case['post']
    for cut in range(len(post) - 1, -1, -1):
        yield dict(case, post=post[:cut])
    for i in range(len(post)):
        if post[i]['side'] != 'new':
            yield dict(case, post=post[:i] + post[i + 1:])
    if case.get('inbatch'):
        yield {k: v for k, v in case.items() if k != 'inbatch'}
    for i in range(len(pre)):
        if pre[i]['op'] != 'new' and not (case.get('inbatch') and i == len(pre) - 1):
            yield dict(case, pre=pre[:i] + pre[i + 1:])
    if case['mech'] != 'deepcopy':
        yield dict(case, mech='deepcopy')
    # drop keyword arguments of constructors
    for i, op in enumerate(pre):
        if op['op'] == 'new' and op['kwargs']:
            for j in range(len(op['kwargs'])):
                yield dict(case, pre=pre[:i] + [dict(op, kwargs=op['kwargs'][:j] + op['kwargs'][j + 1:])] + pre[i + 1:])


def classify(case, impl, fail):
    # the former finding setstate-rebinds-parent-method-watcher-on-subobject is fixed (04a1761): nothing is known
    return None
