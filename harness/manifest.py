"""Regenerate MANIFEST.json from the plugins present (python3 -m harness.manifest)."""
import importlib
import json
import os
import sys

sys.path.insert(0, '/repo')      # some plugins import param at module level

VERIF = os.path.dirname(os.path.dirname(os.path.abspath(__file__)))
ALL = [f'C{i:02d}' for i in range(1, 21)]
PENDING_REASON = ('no check registered yet: the Lean model, theorems and correspondence stream for this property '
                  'are not built (planned, see DESIGN.md section 5); nothing is claimed for it')


def main():
    checks, na, engines = [], [], []
    props = {json.loads(l)['id']: json.loads(l) for l in open(os.path.join(VERIF, 'properties.jsonl'))}
    for pid in ALL:
        if not os.path.exists(os.path.join(VERIF, 'harness', 'props', f'{pid.lower()}.py')):
            na.append({'property_id': pid, 'reason': PENDING_REASON})
            continue
        m = importlib.import_module(f'harness.props.{pid.lower()}')
        if getattr(m, 'NOT_APPLICABLE', None):
            na.append({'property_id': pid, 'reason': m.NOT_APPLICABLE})
            continue
        checks.append({
            'property_id': pid,
            'quick_cmd': f'./check {pid} --tier quick',
            'thorough_cmd': f'./check {pid} --tier thorough',
            'evidence_file': f'evidence/{pid}.json',
            'replay_cmd_template': f'./check {pid} --replay {{path}}',
            'engine': 'lean4-proof+correspondence',
            'level_claimed': {
                'category': 'proof',
                'text': getattr(m, 'LEVEL_TEXT', 'Lean 4 theorems over an executable model of the anchored code, for all inputs/histories; '
                                                 'model tied to /repo by differential correspondence on every run; specification side '
                                                 'evaluated on the implementation as oracle'),
                'design_ref': f'DESIGN.md section 5, {pid}',
            },
            'level_note': '; '.join(m.TRUSTED),
            'technique': getattr(m, 'TECHNIQUE', 'Lean 4 machine-checked proof over a hand-written executable model + differential correspondence check against the implementation'),
        })
    manifest = {
        'version': 1,
        'setup_cmd': 'cd lean && (lake build || true)',
        'hooks': {
            'guard': 'PARAM_VERIF',
            'enable': 'no instrumentation hooks are used; checks import /repo with PYTHONPATH=/repo (PARAM_VERIF=1 is exported by ./check but nothing in /repo reads it)',
            'baseline_off_cmd': 'cd /repo && /venv/bin/python -m pytest -ra -q -p no:cacheprovider --timeout=900 --continue-on-collection-errors --junitxml=/tmp/param_baseline.junit.xml',
            'source_commits': [],
            'add_only': True,
        },
        'engines': [{
            'name': 'lean4-proof+correspondence', 'path': 'lean/ + harness/',
            'serves_properties': [c['property_id'] for c in checks],
            'kind_free_text': 'Lean 4.33 library ParamVerif (models, theorems in Props/, #print axioms audit) + Python harness driving the real '
                              'param code and the Lean model through a JSON-lines driver (lake env lean --run Driver/Cnn.lean)',
        }],
        'checks': checks,
        'not_applicable': na,
        'notes': 'Single entry point ./check <ID> --tier quick|thorough. Exit 0 held / 1 VIOLATION / 2 infrastructure failure. '
                 'KNOWN_FINDINGS.txt lists recorded findings and fixed defects. See DESIGN.md.',
    }
    open(os.path.join(VERIF, 'MANIFEST.json'), 'w').write(json.dumps(manifest, indent=1) + '\n')
    print(f'{len(checks)} checks, {len(na)} not_applicable')


if __name__ == '__main__':
    main()
