"""./check <ID> --tier quick|thorough [--replay file]

Verdict logic (DESIGN.md section 0):
  1. regenerate fragments from /repo, build the property's Lean modules, audit axioms;
  2. run corpus + directed + generated cases on the real code and on the Lean model
     (correspondence) and evaluate the specification side on what the real code did (oracle);
  3. a broken obligation or a disagreement starts the failing-input search (shrinking of
     oracle failures / mismatches); a concrete failing input is the replay, otherwise the
     VIOLATION line ends with no-failing-input-found.
"""
import argparse
import importlib
import json
import os
import random
import re
import sys
import time
import traceback

from . import common
from .common import Infra


def first_diff(a, b, path='$'):
    if type(a) != type(b):
        return f'{path}: impl {a!r} vs model {b!r}'
    if isinstance(a, dict):
        for k in sorted(set(a) | set(b)):
            if k not in a or k not in b:
                return f'{path}.{k}: impl {a.get(k, "<absent>")!r} vs model {b.get(k, "<absent>")!r}'
            d = first_diff(a[k], b[k], f'{path}.{k}')
            if d:
                return d
        return None
    if isinstance(a, list):
        if len(a) != len(b):
            return f'{path}: length impl {len(a)} vs model {len(b)}: impl {a!r} vs model {b!r}'[:400]
        for i, (x, y) in enumerate(zip(a, b)):
            d = first_diff(x, y, f'{path}[{i}]')
            if d:
                return d
        return None
    return None if a == b else f'{path}: impl {a!r} vs model {b!r}'


def judge(plugin, case, impl, resp):
    """-> (kind, why): kind in ok | counterexample | mismatch"""
    if isinstance(impl, dict) and 'crash' in impl:
        return 'mismatch', 'implementation crashed: ' + str(impl['crash'])
    if 'driver_error' in resp:
        # the driver could not read the implementation's observation (a value outside the model's
        # universe, e.g. a string where the model has integers): the correspondence is broken
        return 'mismatch', ('implementation observation is outside what the model can express: '
                            + str(resp['driver_error'])[:200])
    if resp.get('applicable', True) and resp.get('spec_impl') is not None:
        return 'counterexample', resp['spec_impl']
    cmp = getattr(plugin, 'compare', None)
    d = cmp(impl, resp['model']) if cmp else first_diff(impl, resp['model'])
    if d:
        return 'mismatch', d
    if resp.get('applicable', True) and resp.get('spec_model') is not None:
        # the model itself violates the specification: the theorem cannot be true of it
        return 'mismatch', 'specification fails on the model: ' + str(resp['spec_model'])
    return 'ok', None


def explore(plugin_name, seed, tier, worker, nworkers, deadline):
    """run one worker's share of the cases; returns stats and raw failures"""
    plugin = importlib.import_module(plugin_name)
    common.assert_repo_param()
    rng = random.Random(f'{seed}/{worker}')
    drv = common.Driver(plugin.DRIVER)
    st = {'evaluations': 0, 'nontrivial_keys': set(), 'applicable': 0, 'failures': [], 'samples': [],
          'dist': {}, 'branches': {}, 'buckets': {}, 'exhaustive': False, 'stopped_early': False}
    chunk, CH = [], 400

    def flush():
        if not chunk:
            return
        impls = [plugin.run_impl(c) for c in chunk]
        live = [(c, i) for c, i in zip(chunk, impls) if not (isinstance(i, dict) and 'crash' in i)]
        answers = iter(drv.ask_many([{'case': c, 'impl': i} for c, i in live]))
        for c, i in zip(chunk, impls):
            st['evaluations'] += 1
            if isinstance(i, dict) and 'crash' in i:
                # the implementation blew up in a place the model says cannot fail
                r = {'applicable': False, 'model': None}
                kind, why = 'mismatch', 'implementation crashed: ' + str(i['crash'])
                if hasattr(plugin, 'crash_excused') and plugin.crash_excused(c, i, drv):
                    # the harness's own resource guard fired on a case that is just as large in the model
                    st['dist']['excused:resource-guard'] = st['dist'].get('excused:resource-guard', 0) + 1
                    continue
            else:
                r = next(answers)
                kind, why = judge(plugin, c, i, r)
            if r.get('applicable', True):
                st['applicable'] += 1
            for b in r.get('branches', []):
                st['branches'][b] = st['branches'].get(b, 0) + 1
            for k in plugin.tags(c, i):
                st['dist'][k] = st['dist'].get(k, 0) + 1
            if kind != 'ok':
                f = {'kind': kind, 'why': why, 'case': c, 'impl': i, 'model': r.get('model')}
                key = plugin.classify(c, i, f) if hasattr(plugin, 'classify') else None
                bucket = f'{kind}|{key or re.sub(r"[0-9]+", "#", str(why))[:70]}'
                st['nfail'] = st.get('nfail', 0) + 1
                b = st['buckets'].setdefault(bucket, [])
                if len(b) < 3 and len(st['buckets']) <= 60:
                    b.append(f)
                    b.sort(key=lambda x: len(common.canon(x['case'])))
            elif plugin.nontrivial(c, i, r):
                st['nontrivial_keys'].add(common.canon(c))
            if len(st['samples']) < 3 and plugin.nontrivial(c, i, r):
                st['samples'].append({'case': c, 'impl_observation': i if len(common.canon(i)) < 1500 else '<long>',
                                      'spec_on_impl': 'holds' if r.get('spec_impl') is None else r.get('spec_impl')})
        chunk.clear()

    gen = plugin.cases(rng, tier, worker, nworkers)
    try:
        for c in gen:
            chunk.append(c)
            if len(chunk) >= CH:
                flush()
                if time.time() > deadline:
                    st['stopped_early'] = True
                    break
        else:
            st['exhaustive'] = bool(getattr(plugin, 'EXHAUSTIVE', {}).get(tier, False))
        flush()
    finally:
        drv.close()
    st['failures'] = [f for b in st['buckets'].values() for f in b]
    st['distinct_nontrivial'] = len(st['nontrivial_keys'])
    st['nontrivial_keys'] = None
    return st


def shrink(plugin, drv, fail, budget_s=60):
    """delta-debug a failing case, keeping the same failure kind"""
    t0 = time.time()
    best = fail
    # a smaller case must be the *same* failure: same kind and same known-finding classification, so
    # that a new violation is never minimised into a recorded one (and dropped)
    cls = getattr(plugin, 'classify', None)
    key0 = cls(fail['case'], fail['impl'], fail) if cls else None
    improved = True
    while improved and time.time() - t0 < budget_s:
        improved = False
        for cand in plugin.shrink(best['case']):
            if time.time() - t0 > budget_s:
                break
            try:
                impl = plugin.run_impl(cand)
                resp = {} if (isinstance(impl, dict) and 'crash' in impl) else drv.ask({'case': cand, 'impl': impl})
                kind, why = judge(plugin, cand, impl, resp)
            except Infra:
                raise
            except Exception:
                continue
            if kind == best['kind']:
                cand_f = {'kind': kind, 'why': why, 'case': cand, 'impl': impl, 'model': resp.get('model')}
                if cls and cls(cand, impl, cand_f) != key0:
                    continue
                best = cand_f
                improved = True
                break
    return best


def main(argv=None):
    ap = argparse.ArgumentParser()
    ap.add_argument('pid')
    ap.add_argument('--tier', default=os.environ.get('VERIF_TIER', 'quick'), choices=['quick', 'thorough'])
    ap.add_argument('--replay')
    ap.add_argument('--no-build', action='store_true', help='development only: skip lake build/audit')
    args = ap.parse_args(argv)
    pid = args.pid.upper()
    seed = int(os.environ.get('VERIF_SEED', '0') or 0)
    t0 = time.time()
    try:
        plugin_name = f'harness.props.{pid.lower()}'
        plugin = importlib.import_module(plugin_name)
        common.assert_repo_param()
        if args.replay:
            return replay(plugin, args.replay)
        return check(plugin, plugin_name, pid, args.tier, seed, t0, args.no_build)
    except Infra as e:
        print(f'INFRASTRUCTURE-FAILURE property={pid}: {e}', flush=True)
        return 2
    except Exception:
        traceback.print_exc()
        print(f'INFRASTRUCTURE-FAILURE property={pid}: unexpected exception in the harness', flush=True)
        return 2


def replay(plugin, path):
    rp = json.load(open(path))
    case = rp.get('case')
    if case is None:
        print(f'replay {path}: kind={rp.get("kind")} names {rp.get("theorem_or_stream")}; no concrete case to re-execute')
        return 1
    impl = plugin.run_impl(case)
    drv = common.Driver(plugin.DRIVER)
    try:
        resp = {} if (isinstance(impl, dict) and 'crash' in impl) else drv.ask({'case': case, 'impl': impl})
    finally:
        drv.close()
    kind, why = judge(plugin, case, impl, resp)
    print(json.dumps({'case': case, 'impl_observation': impl, 'model_observation': resp.get('model'),
                      'verdict': kind, 'why': why}, indent=1, default=str))
    return 0 if kind == 'ok' else 1


def check(plugin, plugin_name, pid, tier, seed, t0, no_build):
    lines = []
    violations = []     # (replay_path, suffix)
    # 1. generated fragments + proof obligations
    frag = plugin.extract() if hasattr(plugin, 'extract') else None
    if no_build:
        audit = {'obligations': 1, 'discharged': 1, 'broken': [], 'theorems': [], 'axioms_used': [], 'skipped': True}
    else:
        # also (re)build what the driver imports, so that the driver runs against the current model
        drv_src = open(os.path.join(common.LEAN_DIR, plugin.DRIVER)).read()
        drv_mods = re.findall(r'^import\s+(ParamVerif[\w.]*)', drv_src, re.M)
        audit = common.build_and_audit(pid, plugin.PROPS_FILE, list(getattr(plugin, 'EXTRA_MODULES', ())) + drv_mods)
    if tier == 'thorough' and not audit['broken'] and not no_build:
        ok, log = common.leanchecker([plugin.PROPS_FILE[:-5].replace('/', '.')])
        audit['leanchecker'] = 'ok' if ok else log
        if not ok:
            audit['broken'].append({'theorem': 'leanchecker', 'why': log[-400:]})
    # 2. correspondence + oracle
    budget = plugin.BUDGET_S[tier]
    deadline = time.time() + budget
    nworkers = 1 if tier == 'quick' else getattr(plugin, 'THOROUGH_WORKERS', 8)
    if nworkers == 1:
        stats = [explore(plugin_name, seed, tier, 0, 1, deadline)]
    else:
        import concurrent.futures as cf
        import multiprocessing as mp
        with cf.ProcessPoolExecutor(nworkers, mp_context=mp.get_context('fork')) as ex:
            futs = [ex.submit(explore, plugin_name, seed, tier, w, nworkers, deadline) for w in range(nworkers)]
            stats = [f.result() for f in futs]
    failures = [f for s in stats for f in s['failures']]
    known = common.load_known_findings(pid)
    known_hit = {}
    new_fail = []
    drv = None
    try:
        if failures:
            drv = common.Driver(plugin.DRIVER)
        seen_keys = set()
        # counterexamples first: they are concrete violations
        failures.sort(key=lambda f: (f['kind'] != 'counterexample', len(common.canon(f['case']))))
        t_shrink = time.time()
        for f in failures:
            key = plugin.classify(f['case'], f['impl'], f) if hasattr(plugin, 'classify') else None
            if key is not None and key in known and key in known_hit:
                continue
            if time.time() - t_shrink < 120:
                f = shrink(plugin, drv, f, budget_s=20)
                key = plugin.classify(f['case'], f['impl'], f) if hasattr(plugin, 'classify') else None
            if key is not None and key in known:
                known_hit.setdefault(key, f)
                continue
            sig = (f['kind'], key or f['why'][:60])
            if sig in seen_keys:
                continue
            seen_keys.add(sig)
            new_fail.append(f)
    finally:
        if drv:
            drv.close()
    for key, f in known_hit.items():
        lines.append(f'KNOWN-FINDING: property={pid} {key}: {known[key]}')
    cex = [f for f in new_fail if f['kind'] == 'counterexample']
    mism = [f for f in new_fail if f['kind'] == 'mismatch']
    for f in cex[:5]:
        path = common.write_replay(pid, {'property': pid, 'kind': 'counterexample', 'theorem_or_stream': 'oracle on implementation',
                                         'why': f['why'], 'case': f['case'], 'impl_observation': f['impl'],
                                         'model_observation': f['model'], 'seed': seed})
        violations.append((path, ''))
    if not cex:
        # broken correspondence / proof without a concrete failing input
        for f in mism[:3]:
            path = common.write_replay(pid, {'property': pid, 'kind': 'unproved', 'theorem_or_stream': f'correspondence stream {plugin.DRIVER}',
                                             'why': f['why'], 'case': f['case'], 'impl_observation': f['impl'],
                                             'model_observation': f['model'], 'seed': seed})
            violations.append((path, ' no-failing-input-found'))
        if audit['broken'] and not mism:
            path = common.write_replay(pid, {'property': pid, 'kind': 'unproved',
                                             'theorem_or_stream': [b['theorem'] for b in audit['broken']],
                                             'why': audit['broken'], 'build_log_tail': audit.get('build_log_tail', '')[-1500:],
                                             'case': None, 'seed': seed})
            violations.append((path, ' no-failing-input-found'))
    # 3. evidence
    evaluations = sum(s['evaluations'] for s in stats)
    dist, branches = {}, {}
    for s in stats:
        for k, v in s['dist'].items():
            dist[k] = dist.get(k, 0) + v
        for k, v in s['branches'].items():
            branches[k] = branches.get(k, 0) + v
    targets = getattr(plugin, 'COVERAGE_TARGETS', [])
    shortfall = [t for t in targets if not dist.get(t) and not branches.get(t)]
    srcs = audit.get('lean_sources', [])
    ev = {
        'property_id': pid, 'tier': tier, 'seed': seed, 'level': 'proof',
        'coverage': {
            'obligations': audit['obligations'], 'discharged': audit['discharged'],
            'checker_cmd': f'cd lean && lake build {plugin.PROPS_FILE[:-5].replace("/", ".")} && lake env lean ParamVerif/Audit/{pid}.lean  (#print axioms on every theorem of {plugin.PROPS_FILE})'
                           + (' && lake env leanchecker' if tier == 'thorough' else ''),
            'trusted_base': ['Lean 4.33.0 kernel', 'axioms: ' + (', '.join(audit.get('axioms_used', [])) or 'none')]
                            + list(plugin.TRUSTED),
            'theorems': audit.get('theorems', []), 'non_vacuity_examples': audit.get('examples', 0),
            'broken_obligations': audit['broken'], 'lean_sources': srcs,
            'evaluations': evaluations,
            'distinct_nontrivial': sum(s['distinct_nontrivial'] for s in stats),
            'traces_validated_against_impl': evaluations,
            'oracle_applicable_cases': sum(s['applicable'] for s in stats),
            'rule': plugin.RULE,
            'samples': [x for s in stats for x in s['samples']][:4] or [{'note': 'no non-trivial sample'}],
            'exhaustive': all(s['exhaustive'] for s in stats),
            'stopped_at_time_budget': any(s['stopped_early'] for s in stats),
            'input_distribution': dict(sorted(dist.items())), 'model_branches_hit': dict(sorted(branches.items())),
            'coverage_shortfall': shortfall,
            'correspondence_mismatches': len([f for f in failures if f['kind'] == 'mismatch']),
            'oracle_failures_on_impl': len([f for f in failures if f['kind'] == 'counterexample']),
            'known_findings_matched': sorted(known_hit),
            'generated_fragments': frag,
            'source_hashes': common.source_hashes(getattr(plugin, 'SOURCES', [])),
            'workers': nworkers,
        },
        'assumptions': list(plugin.ASSUMPTIONS),
        'wall_s': round(time.time() - t0, 2),
        'violations': len(violations),
    }
    common.write_evidence(pid, ev)
    for ln in lines:
        print(ln)
    print(f'[{pid}] tier={tier} seed={seed} obligations={audit["obligations"]} discharged={audit["discharged"]} '
          f'cases={evaluations} nontrivial={ev["coverage"]["distinct_nontrivial"]} mismatches={ev["coverage"]["correspondence_mismatches"]} '
          f'oracle_failures={ev["coverage"]["oracle_failures_on_impl"]} wall={ev["wall_s"]}s')
    if audit['broken']:
        print(f'[{pid}] broken obligations: ' + json.dumps(audit['broken'])[:1200])
    for path, suffix in violations:
        print(f'VIOLATION property={pid} replay={path}{suffix}')
    sys.stdout.flush()
    return 1 if violations else 0


if __name__ == '__main__':
    sys.exit(main())
