"""Shared machinery of the checks: environment assertion, lake build + axiom
audit, the persistent Lean driver process, replay / evidence writers, known
findings.  See DESIGN.md section 2."""
import fcntl
import hashlib
import json
import os
import re
import subprocess
import sys
import time

VERIF = os.path.dirname(os.path.dirname(os.path.abspath(__file__)))
LEAN_DIR = os.path.join(VERIF, 'lean')
REPO = os.environ.get('VERIF_REPO', '/repo')
ALLOWED_AXIOMS = {'propext', 'Classical.choice', 'Quot.sound'}
FORBIDDEN = re.compile(r'\bsorry\b|\badmit\b|^\s*axiom\s|native_decide|bv_decide|implemented_by|\bunsafe\s|maxHeartbeats\s+0')


class Infra(Exception):
    """infrastructure failure: exit 2, never a verdict"""


def assert_repo_param():
    """Refuse to run against the stale installed copy of param in /venv."""
    import warnings
    warnings.simplefilter('ignore')
    import logging
    logging.disable(logging.CRITICAL)
    import param
    import numbergen
    for m in (param, numbergen):
        if not os.path.abspath(m.__file__).startswith(REPO + '/'):
            raise Infra(f'{m.__name__} imported from {m.__file__}, not from {REPO}')
    return param


# --------------------------------------------------------------------------
# Lean side

def _lake(args, timeout):
    lock = open(os.path.join(VERIF, '.lake.lock'), 'w')
    fcntl.flock(lock, fcntl.LOCK_EX)
    try:
        p = subprocess.run(['lake'] + args, cwd=LEAN_DIR, capture_output=True, text=True, timeout=timeout)
        return p.returncode, p.stdout + p.stderr
    except subprocess.TimeoutExpired as e:
        raise Infra(f'lake {args} timed out') from e
    finally:
        fcntl.flock(lock, fcntl.LOCK_UN)
        lock.close()


def strip_comments(src):
    """remove `--` line comments and (nested) `/- -/` block comments"""
    out = []
    i, depth, n = 0, 0, len(src)
    while i < n:
        if src.startswith('/-', i):
            depth += 1
            i += 2
        elif depth and src.startswith('-/', i):
            depth -= 1
            i += 2
        elif depth:
            if src[i] == '\n':
                out.append('\n')
            i += 1
        elif src.startswith('--', i):
            while i < n and src[i] != '\n':
                i += 1
        else:
            out.append(src[i])
            i += 1
    return ''.join(out)


def lean_sources_of(module_files):
    """transitive closure of `import ParamVerif.*` from the given files"""
    seen, todo = [], list(module_files)
    while todo:
        f = todo.pop()
        if f in seen or not os.path.exists(os.path.join(LEAN_DIR, f)):
            continue
        seen.append(f)
        for m in re.findall(r'^\s*(?:public\s+)?import\s+(ParamVerif[\w.]*)', open(os.path.join(LEAN_DIR, f)).read(), re.M):
            todo.append(m.replace('.', '/') + '.lean')
    return sorted(seen)


def theorems_in(props_file):
    """(namespace-qualified) names of every theorem stated in a Props file"""
    src = strip_comments(open(os.path.join(LEAN_DIR, props_file)).read())
    ns, names = [], []
    for line in src.split('\n'):
        m = re.match(r'\s*namespace\s+(\S+)', line)
        if m:
            ns.append(m.group(1))
            continue
        m = re.match(r'\s*end\s+(\S+)', line)
        if m and ns and ns[-1] == m.group(1):
            ns.pop()
            continue
        m = re.match(r'\s*(?:@\[[^\]]*\]\s*)?(?:private\s+|protected\s+)?theorem\s+(\S+)', line)
        if m:
            names.append('.'.join(ns + [m.group(1)]))
    n_examples = len(re.findall(r'^\s*example\b', src, re.M))
    return names, n_examples


def build_and_audit(pid, props_file, extra_modules=(), timeout=1500):
    """lake build the property module, then `#print axioms` on every theorem
    stated in it.  Returns a dict describing the obligations."""
    t0 = time.time()
    res = {'props_file': props_file, 'obligations': 0, 'discharged': 0, 'theorems': [],
           'examples': 0, 'broken': [], 'axioms_used': [], 'build_log_tail': ''}
    module = props_file[:-5].replace('/', '.')
    names, n_ex = theorems_in(props_file)
    res['examples'] = n_ex
    res['obligations'] = len(names)
    # forbidden constructs in every ParamVerif source the property depends on
    srcs = lean_sources_of([props_file])
    res['lean_sources'] = srcs
    for f in srcs:
        code = strip_comments(open(os.path.join(LEAN_DIR, f)).read())
        for ln, line in enumerate(code.split('\n'), 1):
            if FORBIDDEN.search(line):
                res['broken'].append({'theorem': f'{f}:{ln}', 'why': 'forbidden construct: ' + line.strip()[:80]})
    rc, log = _lake(['build', module] + list(extra_modules), timeout)
    res['build_log_tail'] = log[-3000:]
    if rc != 0:
        # which theorems fail?  every error line names a position in some file
        errs = re.findall(r'error: (\S+?):(\d+):(\d+): (.*)', log)
        res['broken'].append({'theorem': module, 'why': 'lake build failed',
                              'errors': [f'{f}:{l}: {m[:200]}' for f, l, _, m in errs[:10]]})
        res['wall_s'] = time.time() - t0
        return res
    audit_dir = os.path.join(LEAN_DIR, 'ParamVerif', 'Audit')
    os.makedirs(audit_dir, exist_ok=True)
    audit_file = os.path.join(audit_dir, f'{pid}.lean')
    body = f'import {module}\n' + ''.join(f'#print axioms {n}\n' for n in names)
    if not os.path.exists(audit_file) or open(audit_file).read() != body:
        open(audit_file, 'w').write(body)
    rc, log = _lake(['env', 'lean', f'ParamVerif/Audit/{pid}.lean'], timeout)
    if rc != 0:
        res['broken'].append({'theorem': f'Audit.{pid}', 'why': 'audit file failed', 'errors': [log[-1500:]]})
        res['wall_s'] = time.time() - t0
        return res
    log1 = re.sub(r'\s+', ' ', log)
    used = set()
    for n in names:
        m = re.search(r"'" + re.escape(n) + r"' (does not depend on any axioms|depends on axioms: \[([^\]]*)\])", log1)
        if not m:
            res['broken'].append({'theorem': n, 'why': 'no #print axioms output'})
            continue
        ax = [a.strip() for a in (m.group(2) or '').split(',') if a.strip()]
        used.update(ax)
        bad = [a for a in ax if a not in ALLOWED_AXIOMS]
        if bad:
            res['broken'].append({'theorem': n, 'why': 'axioms outside the trusted base: ' + ', '.join(bad)})
        else:
            res['discharged'] += 1
        res['theorems'].append({'name': n, 'axioms': ax})
    res['axioms_used'] = sorted(used)
    res['wall_s'] = time.time() - t0
    return res


def leanchecker(modules, timeout=1800):
    rc, log = _lake(['env', 'leanchecker'] + list(modules), timeout)
    return rc == 0, log[-1500:]


class Driver:
    """persistent `lake env lean --run Driver/<X>.lean` process, one JSON per line"""

    def __init__(self, driver_file):
        self.file = driver_file
        self.p = subprocess.Popen(['lake', 'env', 'lean', '--run', driver_file], cwd=LEAN_DIR,
                                  stdin=subprocess.PIPE, stdout=subprocess.PIPE, stderr=subprocess.PIPE,
                                  text=True, bufsize=1)
        self.n = 0

    def ask(self, req):
        try:
            self.p.stdin.write(json.dumps(req, separators=(',', ':')) + '\n')
            self.p.stdin.flush()
            line = self.p.stdout.readline()
        except BrokenPipeError:
            line = ''
        if not line:
            err = self.p.stderr.read()[-2000:] if self.p.stderr else ''
            raise Infra(f'driver {self.file} died: {err}')
        self.n += 1
        try:
            return json.loads(line)
        except ValueError:
            raise Infra(f'driver {self.file} printed a non-JSON line (does it build?): {line[:300]}')

    def ask_many(self, reqs):
        """pipelined: write everything from a thread, read responses in order"""
        import threading
        data = ''.join(json.dumps(r, separators=(',', ':')) + '\n' for r in reqs)

        def feed():
            try:
                self.p.stdin.write(data)
                self.p.stdin.flush()
            except BrokenPipeError:
                pass
        t = threading.Thread(target=feed)
        t.start()
        out = []
        for _ in reqs:
            line = self.p.stdout.readline()
            if not line:
                t.join()
                err = self.p.stderr.read()[-2000:] if self.p.stderr else ''
                raise Infra(f'driver {self.file} died after {len(out)} responses: {err}')
            try:
                out.append(json.loads(line))
            except ValueError:
                t.join()
                raise Infra(f'driver {self.file} printed a non-JSON line (does it build?): {line[:300]}')
        t.join()
        self.n += len(reqs)
        return out

    def close(self):
        try:
            self.p.stdin.close()
            self.p.wait(timeout=20)
        except Exception:
            self.p.kill()


# --------------------------------------------------------------------------
# findings, replays, evidence

def load_known_findings(pid):
    """lines `finding: property=<id> key=<key> ...` of KNOWN_FINDINGS.txt"""
    out = {}
    path = os.path.join(VERIF, 'KNOWN_FINDINGS.txt')
    if os.path.exists(path):
        for line in open(path):
            m = re.match(r'finding:\s+property=(\S+)\s+key=(\S+)\s+(.*)', line.strip())
            if m and m.group(1) == pid:
                out[m.group(2)] = m.group(3)
    return out


def write_replay(pid, payload):
    # replays of runs against a scratch copy (VERIF_REPO=<dir>: seeded changes, mutation trials) are kept apart
    # from those of /repo's own tree
    d = os.path.join(VERIF, 'replays') if REPO == '/repo' else os.path.join(VERIF, 'replays', 'scratch', os.path.basename(REPO.rstrip('/')))
    os.makedirs(d, exist_ok=True)
    blob = json.dumps(payload, indent=1, sort_keys=True, default=str)
    h = hashlib.sha1(blob.encode()).hexdigest()[:10]
    path = os.path.join(d, f'{pid}-{h}.json')
    open(path, 'w').write(blob)
    return path


def write_evidence(pid, ev):
    if os.environ.get('VERIF_NO_EVIDENCE'):
        # multi-seed sweeps (notes/sweep.sh) leave the evidence of the last regular run in place
        return
    if REPO != '/repo':
        # a development run against a scratch copy (VERIF_REPO=<dir>, mutation trials): evidence describes
        # /repo's tree only, so it is not written
        return
    d = os.path.join(VERIF, 'evidence')
    os.makedirs(d, exist_ok=True)
    tmp = os.path.join(d, f'.{pid}.json.tmp')
    open(tmp, 'w').write(json.dumps(ev, indent=1, default=str))
    os.replace(tmp, os.path.join(d, f'{pid}.json'))


def canon(x):
    """stable string key of a JSON-able case"""
    return json.dumps(x, sort_keys=True, separators=(',', ':'), default=str)


def source_hashes(specs):
    """normalised-AST hash of each tagged source function/class: (file, qualname)"""
    import ast
    out = {}
    cache = {}
    for f, qual in specs:
        try:
            if f not in cache:
                cache[f] = ast.parse(open(os.path.join(REPO, f)).read())
            node = cache[f]
            for part in qual.split('.'):
                node = next(n for n in ast.walk(node) if isinstance(n, (ast.FunctionDef, ast.ClassDef, ast.AsyncFunctionDef)) and n.name == part)
            out[f'{f}:{qual}'] = hashlib.sha1(ast.dump(node, include_attributes=False).encode()).hexdigest()[:12]
        except Exception as e:  # a renamed function is information, not an error
            out[f'{f}:{qual}'] = f'unresolved ({type(e).__name__})'
    return out
