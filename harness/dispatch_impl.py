"""Shared by C03/C04/C05: executes a statement program on a real Parameterized instance and
logs the observation tree the Lean driver understands (see lean/ParamVerif/Dispatch/Model.lean).

Case format
  bounds   : [[lo|None, hi|None], ...]      one Integer parameter p0..pn-1 each
  init     : [int, ...]
  watchers : [{id, params, onlychanged, queued, precedence, body}, ...]   registered up front, in order
  bodies   : [[stmt, ...], ...]             callback programs
  program  : [stmt, ...]                    top-level statements, each run under try/except
  prop     : "C03" | "C04" | "C05"          which oracle the driver evaluates
Statements: {"s":"set","p":i,"v":n} {"s":"update","kvs":[[i,n],..]} {"s":"updateCtx","kvs":..,"body":[..]}
  {"s":"trigger","ps":[i,..]} {"s":"batch","body":[..]} {"s":"discard","body":[..]}
  {"s":"watch","w":{...}} {"s":"unwatch","id":k} {"s":"raise"} {"s":"try","body":[..]}
"""
import json
import sys


SLOTS = {0: 'value', 1: 'precedence', 2: 'step'}
WHAT = {v: k for k, v in SLOTS.items()}


class Boom(Exception):
    pass


class BoomBase(BaseException):
    """stands for KeyboardInterrupt / CancelledError: not an Exception"""


def _res_of(exc):
    if exc is None:
        return 'ok'
    if isinstance(exc, BoomBase):
        return 'BoomBase'
    if isinstance(exc, KeyError):
        return 'KeyError'
    if isinstance(exc, Boom):
        return 'Boom'
    if isinstance(exc, ValueError):
        return 'ValueError'
    return 'other:' + type(exc).__name__


class Runaway(BaseException):
    """more callback invocations than any terminating case of this size can make: the dispatch does not end"""


MAX_CALLS = 20000
DYN_BASE = 100          # = Dispatch.opaqueBase in the model


class Runner:
    def __init__(self, case, cls=None):
        self.ncalls = 0
        import param
        from param.parameterized import batch_call_watchers, discard_events
        self.param = param
        self.batch_ctx, self.discard_ctx = batch_call_watchers, discard_events
        if case.get('legacy_batch'):
            # the deprecated spelling `batch_watch(obj)` = the internal context manager with its defaults
            # (enable=True, run=True): must behave like batch_call_watchers
            import contextlib, warnings
            from param.parameterized import batch_watch

            @contextlib.contextmanager
            def legacy(obj):
                with warnings.catch_warnings():
                    warnings.simplefilter('ignore')
                    cm = batch_watch(obj)
                with cm:
                    yield
            self.batch_ctx = legacy
        self.case = case
        self.dyn = {DYN_BASE + k: (lambda k=k: k) for k in range(4)}
        self.dyn_code = {id(f): c for c, f in self.dyn.items()}
        n = len(case['bounds'])
        self.names = [f'p{i}' for i in range(n)]
        self.events = set(case.get('events', []))
        ns = {}
        for i, (b, v) in enumerate(zip(case['bounds'], case['init'])):
            # bounds are installed after construction (see below), so that a held value may be invalid
            # `shared`: the instance has no Parameter objects of its own (per_instance=False), it dispatches
            # through the class's ones
            kw = {'per_instance': False} if case.get('shared') and case.get('level') != 'class' else {}
            if i in case.get('constants', []) and case.get('level') == 'class':
                # a constant parameter only guards *instances*: on the class it is assigned, watched and
                # dispatched like any other (the model makes no difference)
                kw = dict(kw, constant=True)
            ns[f'p{i}'] = param.Event(**kw) if i in self.events else param.Integer(default=v, **kw)
        if cls is not None:
            self.cls = cls                    # the second object of a case: another instance of the same class
        else:
            self.cls = type('D', (param.Parameterized,), ns)
            if case.get('inherit'):
                # the object is a subclass that only inherits the parameters: a class-level assignment first installs
                # a copy of the Parameter in the subclass, an instance is built from inherited Parameters
                self.cls = type('E', (self.cls,), {})
        # the same programs run on an instance or on the class itself (class-level watchers and assignment)
        self.on_class = case.get('level') == 'class'
        self.obj = self.cls if self.on_class else self.cls()
        # setting `bounds` does not re-validate the value held: a later `trigger`/restore of that value
        # is then rejected - the only way validation can fail inside `trigger`
        for i, (nm, b) in enumerate(zip(self.names, case['bounds'])):
            if i not in self.events:
                self.obj.param[nm].bounds = (b[0], b[1])
        # the watchable Parameter attributes start at 0 (they default to None)
        for i, nm in enumerate(self.names):
            for k in self._slots_of(i):
                setattr(self.obj.param[nm], SLOTS[k], 0)
        self.wobjs = {}          # watcher id -> the Watcher objects made for it, creation order (a `watch`
                                 # statement inside a callback body registers one more each time it runs)
        self.wall = []           # every (id, Watcher object) in creation = registration order
        self.cbs = {}            # callback id -> function (registrations may share a callback)
        self.stack = [[]]
        for w in case['watchers']:
            self._watch(w)
        if case.get('cls_watch') and not self.on_class and cls is None:
            # the class has watchers of its own (all parameters, both kinds): an assignment on the *instance* must
            # never reach them - also when the instance dispatches through the class's Parameter objects
            # (`per_instance=False`) and one of its own watcher lists has become empty again.  A call is logged
            # under callback id 777, which the model does not know.
            runner = self

            def cls_cb(*events):
                node = {'t': 'call', 'w': 777, 'evs': [[runner.names.index(e.name), runner._enc(e.old), runner._enc(e.new), e.type, WHAT[e.what]] for e in events],
                        'flush': False, 'snap': [runner._val(i) for i in range(len(runner.names))], 'ch': [], 'res': 'ok'}
                runner.stack[-1].append(node)
            for oc in (True, False):
                self.cls.param.watch(cls_cb, list(self.names), onlychanged=oc)
        self.steps = []
        # a second instance of the same class with watchers of its own: `other k` statements (in the program, in
        # context bodies, in callbacks of the first object) run the statements others[k] on it, each under its own
        # try/except; its callbacks never touch the first object
        self.twin = None
        if case.get('others') is not None and cls is None and not self.on_class:
            self.twin = Runner(dict(case, watchers=case.get('watchers2', []), program=[], others=None), cls=self.cls)

    # -- observation helpers ------------------------------------------------
    def _flags(self):
        p = self.obj.param
        return bool(p._BATCH_WATCH), bool(p._TRIGGER)

    def _slots_of(self, i):
        return [1] if i in self.events else [1, 2]

    def _wlist(self, name, k=0):
        if self.on_class and self.case.get('via_parent') and self.case.get('inherit'):
            # read where the registrations are made: the parent's Parameter (one registry, shared with the subclass's copy)
            return self.cls.__mro__[1].param[name].watchers.get(SLOTS[k], [])
        if self.on_class or k:
            return self.obj.param[name].watchers.get(SLOTS[k], [])
        return self.obj._param__private.watchers.get(name, {}).get('value', [])

    def _regs(self, i, k=0):
        # [statement id, object identity = index in creation order] of each registered Watcher object
        lst = self._wlist(self.names[i], k)
        keys = {id(w): [k, u] for u, (k, w) in enumerate(self.wall)}
        return [keys.get(id(w), [-1, -1]) for w in lst]

    def _ids(self):
        return {id(w): k for k, w in self.wall}

    def _stored(self, i):
        """the object the parameter holds (not what reading it produces)"""
        nm = self.names[i]
        if self.on_class:
            return self.obj.param[nm].default
        vals = self.obj._param__private.values
        return vals[nm] if nm in vals else type(self.obj).param[nm].default

    def _enc(self, x):
        """model value of a Python value: a callable held by a (Dynamic) numeric parameter is value 100+k"""
        if callable(x):
            return self.dyn_code.get(id(x), -77)
        return int(x)

    def _val(self, i):
        # what the attribute reads must agree with what is stored: the stored number, or - for a callable held
        # by a Dynamic parameter (model value 100+k) - the number k it produces
        got = getattr(self.obj, self.names[i])
        st = self._stored(i)
        if callable(st):
            code = self._enc(st)
            return code if got == code - DYN_BASE and not callable(got) else -78
        return int(got) if got is st or got == st else -79

    def _py(self, i, v):
        """the Python value assigned for model value v: Event parameters hold booleans, values from 100 on
        are callables (a fixed function object per value, producing v - 100)"""
        if i not in self.events and isinstance(v, int) and v >= DYN_BASE:
            return self.dyn[v]
        return bool(v) if (i in self.events and v in (0, 1)) else v

    def world(self):
        p = self.obj.param
        ids = self._ids()
        b, t = self._flags()
        # registration order = order of creation of the Watcher objects still registered
        regs = [k for k, w in self.wall
                if any(any(x is w for x in self._wlist(n, sl)) for n in self.names for sl in (0, 1, 2))]
        return {'vals': [self._val(i) for i in range(len(self.names))], 'batch': b, 'trigger': t,
                'events': [[self.names.index(e.name), self._enc(e.old), self._enc(e.new), WHAT[e.what]] for e in p._events],
                'slots': [[i, k, int(getattr(self.obj.param[n], SLOTS[k]) or 0) if k in self._slots_of(i) else 0]
                          for i, n in enumerate(self.names) for k in (1, 2)],
                'queued': [ids.get(id(w), -1) for w in p._state_watchers],
                'regs': regs}

    # -- watchers -------------------------------------------------------------
    def _watch(self, w):
        wid, cbid = w['id'], w.get('cb', w['id'])
        body = self.case['bodies'][w['body']] if w['body'] < len(self.case['bodies']) else []
        runner = self
        if cbid not in self.cbs:
            def cb(*events, **kwargs):
                runner.ncalls += 1
                if runner.ncalls > MAX_CALLS:
                    raise Runaway()
                caller = sys._getframe(2).f_code.co_name if sys._getframe(1).f_code.co_name == '_execute_watcher' else '?'
                via = {'_call_watcher': False, '_batch_call_watchers': True}.get(caller)
                # 'kwargs' mode (watch_values): the callback only sees name=new
                evs = [[runner.names.index(e.name), runner._enc(e.old), runner._enc(e.new), e.type, WHAT[e.what]] for e in events] + \
                      [[runner.names.index(n), runner._enc(v), runner._enc(v), 'kw', 0] for n, v in kwargs.items()]
                node = {'t': 'call', 'w': cbid,
                        'evs': evs,
                        'flush': via, 'snap': [runner._val(i) for i in range(len(runner.names))], 'ch': [], 'res': None}
                runner.stack[-1].append(node)
                runner.stack.append(node['ch'])
                try:
                    runner.run_stmts(body)
                    node['res'] = 'ok'
                except BaseException as e:
                    node['res'] = _res_of(e)
                    raise
                finally:
                    runner.stack.pop()
            self.cbs[cbid] = cb
        # `via_parent` (class level, the object is a subclass that only inherits its parameters): the registration is made
        # through the PARENT class.  The copy of an inherited Parameter that a subclass gets on its first assignment shares
        # the parent's watcher registry, so for the model nothing changes - also for a watcher kind registered after the copy
        robj = self.cls.__mro__[1] if (self.case.get('via_parent') and self.on_class and self.case.get('inherit')) else self.obj
        if w.get('kw'):
            wo = robj.param.watch_values(self.cbs[cbid], [self._name(i) for i in w['params']],
                                                          onlychanged=w['onlychanged'], queued=w['queued'],
                                                          precedence=w['precedence'])
        else:
            # a negative precedence is what the library's own watchers have (depends(), references): the public
            # `watch` refuses it, the internal `_watch` is what those callers use
            reg = robj.param._watch if w['precedence'] < 0 else robj.param.watch
            wo = reg(self.cbs[cbid], [self._name(i) for i in w['params']],
                     what=SLOTS[w.get('what', 0)],
                     onlychanged=w['onlychanged'], queued=w['queued'],
                     precedence=w['precedence'])
        self.wobjs.setdefault(wid, []).append(wo)
        self.wall.append((wid, wo))

    # -- statements -----------------------------------------------------------
    def _node(self, kind, p=0, old=0, new=0, regs=()):
        b, t = self._flags()
        node = {'t': 'stmt', 'k': kind, 'p': p, 'old': old, 'new': new, 'b': b, 'tr': t, 'regs': list(regs),
                'ch': [], 'res': None}
        self.stack[-1].append(node)
        return node

    def _keys(self, node, kvs, tr):
        for k, v in kvs:
            inr = k < len(self.names)
            node['ch'].append({'t': 'stmt', 'k': 'key', 'p': k, 'old': self._val(k) if inr else 0, 'new': v, 'b': True,
                               'tr': tr, 'regs': self._regs(k) if inr else [], 'ch': [], 'res': 'ok'})

    def _name(self, k):
        return self.names[k] if k < len(self.names) else f'nosuch{k}'

    def run_stmts(self, stmts):
        for s in stmts:
            self.run_stmt(s)

    def _in(self, node, fn):
        self.stack.append(node['ch'])
        try:
            fn()
            node['res'] = 'ok'
        except BaseException as e:
            node['res'] = _res_of(e)
            raise
        finally:
            self.stack.pop()

    def run_stmt(self, s):
        k = s['s']
        obj = self.obj
        if k == 'set':
            p = s['p']
            node = self._node('set', p, self._val(p), s['v'], self._regs(p))
            self._in(node, lambda: setattr(obj, self.names[p], self._py(p, s['v'])))
        elif k == 'setSlot':
            p, sl = s['p'], s['k']
            pobj = obj.param[self.names[p]]
            node = self._node(f'setSlot{sl}', p, int(getattr(pobj, SLOTS[sl]) or 0), s['v'], self._regs(p, sl))
            self._in(node, lambda: setattr(pobj, SLOTS[sl], s['v']))
        elif k == 'update':
            kvs = list(dict((a, b) for a, b in s['kvs']).items())
            node = self._node('update')
            self._keys(node, kvs, node['tr'])
            self._in(node, lambda: obj.param.update({self._name(a): self._py(a, b) for a, b in kvs}))
        elif k == 'updateCtx':
            kvs = list(dict((a, b) for a, b in s['kvs']).items())
            node = self._node('updateCtx')
            self._keys(node, kvs, node['tr'])

            def go():
                ctx = obj.param.update({self._name(a): self._py(a, b) for a, b in kvs})
                restore = dict(ctx.__enter__())
                exc = None
                try:
                    self.run_stmts(s['body'])
                except BaseException as e:
                    exc = e
                self._keys(node, [(self.names.index(n), self._enc(v)) for n, v in restore.items()], self._flags()[1])
                ctx.__exit__(type(exc) if exc else None, exc, None)
                if exc is not None:
                    raise exc
            self._in(node, go)
        elif k == 'trigger':
            ps = list(dict.fromkeys(s['ps']))
            node = self._node('trigger')
            self._keys(node, [(p, 1 if p in self.events else (self._val(p) if p < len(self.names) else 0)) for p in ps], True)
            self._in(node, lambda: obj.param.trigger(*[self._name(p) for p in ps]))
        elif k == 'batch':
            node = self._node('batch')

            def go():
                with self.batch_ctx(obj):
                    self.run_stmts(s['body'])
            self._in(node, go)
        elif k == 'discard':
            node = self._node('discard')

            def go():
                with self.discard_ctx(obj):
                    self.run_stmts(s['body'])
            self._in(node, go)
        elif k == 'watch':
            node = self._node('watch', s['w']['id'])

            def go():
                # unknown names are handed to the library: it must refuse them and register nothing
                self._watch(s['w'])
            self._in(node, go)
        elif k == 'unwatch':
            node = self._node('unwatch', s['id'])

            def go():
                # every registration made under that id (they are equal tuples, `remove` takes them one by one)
                for w in self.wobjs.get(s['id'], []):
                    if any(any(x is w for x in self._wlist(n, sl)) for n in self.names for sl in (0, 1, 2)):
                        obj.param.unwatch(w)
            self._in(node, go)
        elif k == 'clsSet':
            # the class-level default is re-assigned while the program works on an instance
            p = s['p']
            node = self._node('clsSet', p, self._val(p), s['v'])
            self._in(node, lambda: setattr(self.cls, self.names[p], s['v']))
        elif k == 'other':
            self._node('other', s['k'])['res'] = 'ok'
            if self.twin is not None:
                for st in self.case['others'][s['k']]:
                    self.twin.run_top(st)
        elif k == 'raise':
            raise Boom()
        elif k == 'raiseBase':
            raise BoomBase()
        elif k == 'try':
            try:
                self.run_stmts(s['body'])
            except Exception:
                pass
        else:
            raise RuntimeError(k)

    def run_top(self, s):
        """one statement under try/except, the object observed afterwards"""
        saved, self.stack = self.stack, [[]]
        try:
            self.run_stmt(s)
            res = 'ok'
        except (RecursionError, Runaway):
            raise
        except (Exception, BoomBase) as e:
            res = _res_of(e)
        st = {'res': res, 'items': self.stack[0]}
        self.stack = saved
        st.update(self.world())
        self.steps.append(st)

    def run_program(self):
        for s in self.case['program']:
            self.run_top(s)
        out = {'steps': self.steps}
        if self.twin is not None:
            out['steps2'] = self.twin.steps
        return out


def run_impl(case):
    try:
        return Runner(case).run_program()
    except RecursionError:
        return {'crash': 'RecursionError'}
    except Runaway:
        return {'crash': f'Runaway: more than {MAX_CALLS} callback invocations (the dispatch does not terminate)'}
    except Exception as e:
        import traceback
        return {'crash': f'{type(e).__name__}: {e} @ {traceback.format_exc().splitlines()[-3].strip()}'[:300]}


def crash_excused(case, impl, drv):
    """the Runaway guard is the harness's, not the library's: it only counts as a failure when the model
    (where dispatch iterates over a snapshot of the watcher list) makes far fewer invocations"""
    if not str(impl.get('crash', '')).startswith('Runaway'):
        return False
    r = drv.ask({'case': case, 'impl': None, 'calls_only': True})
    return bool(r.get('oof')) or int(r.get('ncalls', 0)) > MAX_CALLS // 4


def compare(impl, model):
    """structural diff; `flush: None` on the implementation side (unknown caller) is a wildcard"""
    from .run import first_diff

    def scrub(x, ref):
        if isinstance(x, dict):
            out = {}
            for k, v in x.items():
                if k == 'flush' and v is None and isinstance(ref, dict):
                    out[k] = ref.get('flush')
                else:
                    out[k] = scrub(v, ref.get(k) if isinstance(ref, dict) else None)
            return out
        if isinstance(x, list):
            return [scrub(v, ref[i] if isinstance(ref, list) and i < len(ref) else None) for i, v in enumerate(x)]
        return x
    return first_diff(scrub(impl, model), model)


# --------------------------------------------------------------------------- generation

def gen_case(rng, prop, max_params=4, max_watchers=5, faults=False, size=8):
    n = rng.randint(1, max_params)
    bounds = [[0, 9] if rng.random() < 0.7 else [None, None] for _ in range(n)]
    init = [rng.randint(0, 3) if not (faults and rng.random() < 0.12) else 12 for _ in range(n)]
    events = [i for i in range(n) if rng.random() < 0.2]
    for i in events:
        bounds[i], init[i] = [0, 1], 0
    level = 'class' if rng.random() < 0.2 else 'instance'
    # an instance that shares its Parameter objects with the class (per_instance=False); Parameter attributes
    # then belong to the class's dispatcher, so attribute watchers are left out of these cases
    shared = level == 'instance' and rng.random() < 0.15
    # the object is (an instance of) a subclass that only inherits its parameters; at class level the attributes of
    # an inherited Parameter belong to the ancestor's dispatcher, so attribute watchers are left out there too
    inherit = rng.random() < 0.4
    if inherit and level == 'class':
        shared = True          # (only switches the attribute watchers off: `shared` is ignored at class level)
    nb = rng.randint(0, 4)
    state = {'next_wid': 0, 'shared': set(), 'made': []}
    # a second instance of the class (see below); decided here because it rules out class-level assignments:
    # the class default is what both instances read until they are assigned, one object's statement would
    # then change the other's values, and the two objects are modelled as independent worlds
    second = level == 'instance' and not shared and rng.random() < 0.35
    # callables as values of the numeric parameters (model values from DYN_BASE on) in a quarter of the cases
    dyn_ok = rng.random() < 0.25

    def mk_watcher(body_idx, rank_limit=None):
        ps = rng.sample(range(n), rng.randint(1, min(n, 3)))
        w = {'id': state['next_wid'], 'params': ps, 'onlychanged': rng.random() < 0.6,
             'queued': rng.random() < 0.3, 'precedence': rng.choice([0, 0, 0, 1, 2, 5, -1]), 'body': body_idx}
        w['cb'] = w['id']
        if rng.random() < 0.15 and not shared:
            # a watcher of a Parameter attribute; Event parameters only have `precedence`
            w['what'] = 1 if any(p in events for p in ps) else rng.choice([1, 2])
        elif rng.random() < 0.15 and w['precedence'] >= 0:
            w['kw'] = True      # registered with watch_values
        state['next_wid'] += 1
        return w

    def twin_of(orig):
        """a second registration of the same callback with the same options (an equal namedtuple)"""
        w = dict(orig, id=state['next_wid'])
        state['next_wid'] += 1
        state['shared'].update({orig['id'], w['id']})
        return w

    # bodies: body j may only assign parameters with index < the minimum watched index of its users;
    # to keep cascades acyclic every body is given a rank r and assigns only parameters < r, and a
    # watcher using body j watches only parameters >= r.
    ranks = [rng.randint(0, n) for _ in range(nb)]

    def value():
        return rng.choice([0, 1, 2, 3, 3, 7, 12 if faults or rng.random() < 0.1 else 5])

    def stmt(depth, limit, in_body):
        """limit: parameters < limit may be assigned"""
        kinds = ['set'] * 5 + ['update'] * 2 + ['batch', 'discard', 'trigger', 'try', 'updateCtx'] + ([] if shared else ['setSlot'])
        if level == 'instance' and not second and any(i not in events for i in range(n)):
            kinds += ['clsSet']
        if not in_body:
            kinds += ['watch', 'unwatch']
        elif rng.random() < 0.25:
            # a callback that (un)registers watchers while a dispatch is in progress (one-shot watchers …)
            kinds += ['watch', 'unwatch', 'unwatch']
        if faults:
            kinds += ['raise', 'try', 'set']
            if rng.random() < 0.15:
                kinds += ['raiseBase']
        if limit == 0:
            kinds = [k for k in kinds if k in ('batch', 'discard', 'try', 'raise', 'raiseBase', 'watch', 'unwatch', 'clsSet')] or ['try']
        k = rng.choice(kinds)
        if depth <= 0 and k in ('batch', 'discard', 'try', 'updateCtx'):
            if not limit:
                return {'s': 'try', 'body': []}
            k = 'set'
        def pv(i):
            if i in events:
                return rng.choice([1, 1, 1, 0, 7])
            if dyn_ok and bounds[i] == [None, None] and rng.random() < 0.15:
                # a callable held by the (Dynamic) numeric parameter: old/new must be the stored objects, not the
                # numbers they produce, and the changes-only filter never finds two callables equal
                return DYN_BASE + rng.randrange(3)
            return value()
        if k == 'clsSet':
            # any ordinary parameter (nothing is dispatched on the instance, so no rank discipline); valid values only
            p = rng.choice([i for i in range(n) if i not in events])
            return {'s': 'clsSet', 'p': p, 'v': rng.choice([0, 1, 2, 3, 7])}
        if k == 'set':
            p = rng.randrange(limit)
            return {'s': 'set', 'p': p, 'v': pv(p)}
        if k == 'setSlot':
            p = rng.randrange(limit)
            return {'s': 'setSlot', 'p': p, 'k': 1 if p in events else rng.choice([1, 2]), 'v': rng.choice([0, 1, 1, 2, 3])}
        if k == 'update':
            ks = rng.sample(range(limit), rng.randint(1, min(limit, 3)))
            kvs = [[i, pv(i)] for i in ks]
            if faults and rng.random() < 0.08:
                kvs.insert(rng.randrange(len(kvs) + 1), [n, 1])          # an unknown name: ValueError
            return {'s': 'update', 'kvs': kvs}
        if k == 'updateCtx':
            ks = rng.sample(range(limit), rng.randint(1, min(limit, 2)))
            return {'s': 'updateCtx', 'kvs': [[i, pv(i)] for i in ks], 'body': body(depth - 1, limit, in_body)}
        if k == 'trigger':
            ps = rng.sample(range(limit), rng.randint(1, min(limit, 2)))
            if faults and rng.random() < 0.08:
                ps.insert(rng.randrange(len(ps) + 1), n)          # an unknown name: KeyError
            return {'s': 'trigger', 'ps': ps}
        if k in ('batch', 'discard', 'try'):
            return {'s': k, 'body': body(depth - 1, limit, in_body)}
        if k == 'raise':
            return {'s': 'raise'}
        if k == 'raiseBase':
            return {'s': 'raiseBase'}
        if k == 'watch':
            if in_body:
                # a callback may register watchers, but only ones whose own callback does nothing: the
                # number of invocations then grows linearly, not exponentially, with the events
                w = mk_watcher(nb)
                state['made'].append(w)
                return {'s': 'watch', 'w': w}
            w = mk_for_body()
            if faults and rng.random() < 0.15 and w['id'] not in state['shared']:
                # an unknown name among the parameters: the registration must fail as a whole
                state['made'] = [x for x in state['made'] if x is not w]      # never the model of a twin
                w['params'] = list(w['params'])
                w['params'].insert(rng.randrange(len(w['params']) + 1), n)
            return {'s': 'watch', 'w': w}
        if k == 'unwatch':
            # registrations that share a callback are equal as namedtuples: `unwatch` removes the first
            # equal one, which the id-based model does not track - never unwatch those
            if in_body:
                return {'s': 'unwatch', 'id': None}          # chosen below, once every watcher exists
            cands = [i for i in range(max(1, state['next_wid'])) if i not in state['shared']]
            return {'s': 'unwatch', 'id': rng.choice(cands) if cands else state['next_wid'] + 7}
        raise RuntimeError(k)

    def body(depth, limit, in_body):
        return [stmt(depth, limit, in_body) for _ in range(rng.randint(0 if in_body else 1, 3))]

    def mk_for_body():
        w = _mk_for_body()
        state['made'].append(w)
        return w

    def _mk_for_body():
        if state['made'] and rng.random() < 0.12:
            return twin_of(rng.choice(state['made']))
        if nb and rng.random() < 0.7:
            j = rng.randrange(nb)
            cands = [i for i in range(n) if i >= ranks[j]]
            if cands:
                w = mk_watcher(j)
                w['params'] = rng.sample(cands, rng.randint(1, min(len(cands), 3)))
                return w
        w = mk_watcher(nb)      # index nb = empty body (out of range -> [])
        return w

    bodies = [[stmt(2, ranks[j], True) for _ in range(rng.randint(0, 3))] if ranks[j] or faults else []
              for j in range(nb)]
    watchers = [mk_for_body() for _ in range(rng.randint(1, max_watchers))]
    program = [stmt(3, n, False) for _ in range(rng.randint(1, size))]
    # `unwatch` inside a callback body: half of the time the callback removes (one of) its own registrations
    # (a one-shot watcher), otherwise any watcher; never one that shares its callback (see above)
    def fix(stmts, j):
        for st in stmts:
            if st['s'] == 'unwatch' and st['id'] is None:
                own = [w['id'] for w in state['made'] if w['body'] == j and w['id'] not in state['shared']]
                anyw = [w['id'] for w in state['made'] if w['id'] not in state['shared']]
                st['id'] = rng.choice(own) if own and rng.random() < 0.5 else (rng.choice(anyw) if anyw else state['next_wid'] + 7)
            if 'body' in st:
                fix(st['body'], j)
    for j, b in enumerate(bodies):
        fix(b, j)
    if faults and rng.random() < 0.12:
        # a *queued* callback that assigns (so that events of its own are pending) and then raises - also a
        # BaseException: what the failing flush round has queued must not stay behind (seeded C05-rt3)
        users = [w for w in watchers if w['body'] < nb and ranks[w['body']] > 0 and w['id'] not in state['shared']]
        if users:
            w = rng.choice(users)
            w['queued'] = True
            bodies[w['body']] = bodies[w['body']] + [{'s': 'set', 'p': rng.randrange(ranks[w['body']]), 'v': value()},
                                                     {'s': rng.choice(['raise', 'raiseBase'])}]
    if rng.random() < 0.12:
        # several watchers of one (parameter, what) whose callbacks add and remove watchers of that same
        # list while it is being dispatched (one-shot watchers, self-replacing watchers …)
        p = rng.randrange(n)
        what = 0 if shared else rng.choice([0, 1] if p in events else [0, 1, 2])
        bodies.append([])                         # index nb stays the empty body
        group = []
        for _ in range(rng.randint(2, 4)):
            w = mk_watcher(nb)
            w['params'] = [p]
            w.pop('kw', None); w.pop('what', None)
            if what:
                w['what'] = what
            group.append(w)
        for w in group:
            b = []
            for _ in range(rng.randint(0, 2)):
                if rng.random() < 0.7:
                    b.append({'s': 'unwatch', 'id': rng.choice(group)['id']})
                else:
                    nw = mk_watcher(nb)
                    nw['params'] = [p]
                    nw.pop('kw', None); nw.pop('what', None)
                    if what:
                        nw['what'] = what
                    b.append({'s': 'watch', 'w': nw})
            if b:
                w['body'] = len(bodies)
                bodies.append(b)
        for w in group:
            watchers.insert(rng.randrange(len(watchers) + 1), w)
        for _ in range(rng.randint(1, 3)):
            st = {'s': 'setSlot', 'p': p, 'k': what, 'v': rng.choice([0, 1, 2, 3])} if what else \
                 {'s': 'set', 'p': p, 'v': rng.choice([1, 1, 0, 7]) if p in events else value()}
            program.insert(rng.randrange(len(program) + 1), st)
    extra = {}
    if second:
        # a second instance of the class with watchers of its own; `other k` statements - in the program, inside
        # its context bodies, at the end of callbacks of the first object - run statement list k on it
        watchers2 = [mk_for_body() for _ in range(rng.randint(1, 3))]
        others = [[stmt(1, n, False) for _ in range(rng.randint(1, 3))] for _ in range(rng.randint(1, 3))]

        def lists(stmts):
            yield stmts
            for st in stmts:
                if 'body' in st:
                    yield from lists(st['body'])
        for _ in range(rng.randint(1, 4)):
            tgt = rng.choice(list(lists(program)))
            tgt.insert(rng.randrange(len(tgt) + 1), {'s': 'other', 'k': rng.randrange(len(others))})
        used2 = {w['body'] for w in watchers2}
        for w in watchers:
            if rng.random() < 0.4 and w['id'] not in state['shared']:
                # this callback of the first object also acts on the second one (a body of its own: the second
                # object's callbacks must never reach back)
                old = bodies[w['body']] if w['body'] < len(bodies) else []
                while len(bodies) <= nb:
                    bodies.append([])
                nbody = list(old)
                nbody.insert(rng.randrange(len(nbody) + 1), {'s': 'other', 'k': rng.randrange(len(others))})
                w['body'] = len(bodies)
                bodies.append(nbody)
        assert not any('other' in json.dumps(bodies[j]) for j in used2 if j < len(bodies))
        extra = {'others': others, 'watchers2': watchers2}
    # registrations that share a callback are equal namedtuples and `unwatch` removes the first equal one, which the
    # id-based model does not track: no `unwatch` may name one of them - checked once more at the end, because a
    # twin may have been made after the `unwatch` statement was generated while running before it
    def no_shared_unwatch(stmts):
        for st in stmts:
            if st['s'] == 'unwatch' and st['id'] in state['shared']:
                st['id'] = state['next_wid'] + 7
            if 'body' in st:
                no_shared_unwatch(st['body'])
    for l in [program] + bodies + extra.get('others', []):
        no_shared_unwatch(l)
    if rng.random() < 0.08:
        extra['legacy_batch'] = True
    if level == 'instance' and not second and rng.random() < 0.3 and '"clsSet"' not in json.dumps([program, bodies]):
        # (not together with class-level assignments of a default, which are the class's own events)
        extra['cls_watch'] = True
    if level == 'class' and inherit and rng.random() < 0.5:
        extra['via_parent'] = True
    if level == 'class' and rng.random() < 0.3:
        extra['constants'] = [i for i in range(n) if i not in events and rng.random() < 0.5]
    return {**extra, 'prop': prop, 'level': level, 'shared': shared, 'inherit': inherit, 'events': events, 'bounds': bounds, 'init': init, 'watchers': watchers,
            'bodies': bodies, 'program': program}


def shrink(case):
    prog = case['program']
    for i in range(len(prog)):
        yield dict(case, program=prog[:i] + prog[i + 1:])
    # unwrap / shrink nested bodies of top-level statements
    for i, s in enumerate(prog):
        if 'body' in s:
            yield dict(case, program=prog[:i] + s['body'] + prog[i + 1:])
            for j in range(len(s['body'])):
                yield dict(case, program=prog[:i] + [dict(s, body=s['body'][:j] + s['body'][j + 1:])] + prog[i + 1:])
        if s.get('kvs') and len(s['kvs']) > 1:
            for j in range(len(s['kvs'])):
                yield dict(case, program=prog[:i] + [dict(s, kvs=s['kvs'][:j] + s['kvs'][j + 1:])] + prog[i + 1:])
    ws = case['watchers']
    for i in range(len(ws)):
        yield dict(case, watchers=ws[:i] + ws[i + 1:])
    for j, b in enumerate(case['bodies']):
        for i in range(len(b)):
            nb = list(case['bodies'])
            nb[j] = b[:i] + b[i + 1:]
            yield dict(case, bodies=nb)
    # registrations sharing a callback must stay identical: never shrink their attributes
    import json as _json
    allw = list(ws) + [st['w'] for st in _all_stmts(case) if st.get('s') == 'watch']
    cbcount = {}
    for w in allw:
        cbcount[w.get('cb', w['id'])] = cbcount.get(w.get('cb', w['id']), 0) + 1
    for i, w in enumerate(ws):
        if cbcount.get(w.get('cb', w['id']), 0) > 1:
            continue
        if w['queued']:
            yield dict(case, watchers=ws[:i] + [dict(w, queued=False)] + ws[i + 1:])
        if w['precedence']:
            yield dict(case, watchers=ws[:i] + [dict(w, precedence=0)] + ws[i + 1:])
        if len(w['params']) > 1:
            yield dict(case, watchers=ws[:i] + [dict(w, params=w['params'][:1])] + ws[i + 1:])


def _all_stmts(case):
    def rec(stmts):
        for st in stmts:
            yield st
            if 'body' in st:
                yield from rec(st['body'])
    yield from rec(case['program'])
    for b in case['bodies']:
        yield from rec(b)


def walk(items):
    for it in items:
        yield it
        yield from walk(it['ch'])


def tags(case, impl):
    t = [f'nparams={len(case["bounds"])}', f'nwatchers={len(case["watchers"])}', 'level:' + case.get('level', 'instance'),
         'events:' + ('yes' if case.get('events') else 'no')]
    if isinstance(impl, dict) and 'steps' in impl:
        for st in impl['steps']:
            t.append('top:' + st['res'].split(':')[0])
            for it in walk(st['items']):
                if it['t'] == 'call':
                    t.append('call:flush' if it['flush'] else 'call:direct')
                    if it['res'] != 'ok':
                        t.append('call:raised')
                else:
                    t.append(f'stmt:{it["k"]}' + (':batched' if it['b'] else '') + ('' if it['res'] == 'ok' else ':raised'))
                    if it['k'] in ('set', 'key') and (it.get('new', 0) >= DYN_BASE or it.get('old', 0) >= DYN_BASE):
                        t.append('value:callable')
    for k in ('legacy_batch', 'shared', 'inherit', 'others', 'constants', 'cls_watch', 'via_parent'):
        if case.get(k):
            t.append('case:' + k)
    return t


def nontrivial(case, impl, resp):
    if 'steps' not in impl:
        return False
    return sum(1 for st in impl['steps'] for it in walk(st['items']) if it['t'] == 'call') >= 1
