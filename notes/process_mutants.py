"""usage: process_mutants.py <ID> <round-tag> <checks comma> [k...]
Second-round red-team intake for property <ID> (mutants /tmp/rt/<ID>b_mut<k>.{diff,json}, _demo.py):
 1. confirm: demo exits 0 on the clean worktree /tmp/rt/<ID> and 1 with the patch; full suite passes with it
 2. run the named checks (quick) against a scratch copy of /repo's tree with the patch (VERIF_REPO)
 3. record under /verif/seeded/<ID>-<round-tag>t<k>/ (patch.diff, demo.py, meta.json)
Nothing here touches /repo.
"""
import glob, json, os, re, shutil, subprocess, sys

pid, tag, checks = sys.argv[1], sys.argv[2], sys.argv[3].split(',')
RL = os.environ.get('RL', 'b')          # round letter in the red-team file names (<ID>b_mut1, <ID>c_mut1 ...)
ks = sys.argv[4:] or sorted(re.search(r'mut(\d+)\.diff', f).group(1) for f in glob.glob(f'/tmp/rt/{pid}{RL}_mut*.diff'))
wt = f'/tmp/rt/{pid}'
PY = '/venv/bin/python'


def sh(cmd, **kw):
    return subprocess.run(cmd, capture_output=True, text=True, **kw)


def demo(path):
    env = dict(os.environ, PYTHONPATH=wt, PYTHONDONTWRITEBYTECODE='1')
    return sh([PY, path], cwd=wt, env=env, timeout=300).returncode


for k in ks:
    base = f'/tmp/rt/{pid}{RL}_mut{k}'
    diff, dm = base + '.diff', base + '_demo.py'
    meta = json.load(open(base + '.json')) if os.path.exists(base + '.json') else {}
    sh(['git', '-C', wt, 'checkout', '--', '.'])
    clean_rc = demo(dm)
    r = sh(['git', '-C', wt, 'apply', diff])
    if r.returncode != 0:
        print(f'{pid} mut{k}: PATCH DOES NOT APPLY {r.stderr[-200:]}'); continue
    mut_rc = demo(dm)
    t = sh([PY, '-m', 'pytest', '-q', '-p', 'no:cacheprovider', '-x', '--timeout=900', '-n', '4'], cwd=wt,
           env=dict(os.environ, PYTHONPATH=wt, PYTHONDONTWRITEBYTECODE='1'))
    if 'unrecognized arguments' in (t.stderr + t.stdout):
        t = sh([PY, '-m', 'pytest', '-q', '-p', 'no:cacheprovider', '-x', '--timeout=900'], cwd=wt,
               env=dict(os.environ, PYTHONPATH=wt, PYTHONDONTWRITEBYTECODE='1'))
    tail = re.sub(r'\x1b\[[0-9;]*m', '', (t.stdout.strip().splitlines() or ['?'])[-1])
    sh(['git', '-C', wt, 'checkout', '--', '.'])
    confirmed = clean_rc == 0 and mut_rc == 1 and bool(re.search(r'\d+ passed', tail)) and not re.search(r'\d+ (failed|error)', tail)
    # run the checks
    d = f'/tmp/mut/work_{pid}{RL}_{k}'
    shutil.rmtree(d, ignore_errors=True); os.makedirs(d)
    for sub in ('param', 'numbergen'):
        shutil.copytree('/repo/' + sub, d + '/' + sub)
    r = sh(['patch', '-p1', '-s', '-d', d, '-i', diff])
    out = {}
    if r.returncode == 0:
        for chk in checks:
            r = sh(['./check', chk, '--tier', 'quick'], cwd='/verif', env=dict(os.environ, VERIF_REPO=d))
            viol = [l for l in r.stdout.splitlines() if l.startswith('VIOLATION')]
            out[chk] = ('missed' if r.returncode == 0 else
                        'infra-error rc=%d' % r.returncode if r.returncode != 1 or not viol else
                        'caught (no-failing-input-found)' if all('no-failing-input-found' in v for v in viol) else
                        'caught (counterexample)')
    else:
        out = {c: 'patch failed on /repo copy' for c in checks}
    shutil.rmtree(d, ignore_errors=True)
    print(f'{pid} mut{k}: demo clean={clean_rc} mutant={mut_rc}; suite: {tail}; confirmed={confirmed}; checks={out}', flush=True)
    if confirmed:
        sd = f'/verif/seeded/{pid}-{tag}t{k}'
        os.makedirs(sd, exist_ok=True)
        shutil.copy(diff, sd + '/patch.diff'); shutil.copy(dm, sd + '/demo.py')
        meta.update({'property': pid, 'tests': tail,
                     'origin': 'independent sub-agent given only the property text and a scratch worktree (later round: told which ideas were already used)',
                     'confirmed': f'demo exits 0 on the clean tree and 1 with the patch; full suite with the patch: {tail} (re-run by the lead in {wt})',
                     'first_result': out.get(pid, '?'), 'results': out,
                     'checks_run': './check <id> --tier quick with VERIF_REPO=<scratch copy of /repo with the patch>'})
        json.dump(meta, open(sd + '/meta.json', 'w'), indent=1)
