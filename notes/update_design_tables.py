"""regenerate the two generated tables of DESIGN.md section 9: seeded changes (notes/seeded_table.py) and mechanical
mutants (notes/mutation/table.py)"""
import os, re, subprocess
os.chdir(os.path.join(os.path.dirname(__file__), '..'))
d = open('DESIGN.md').read()
out = subprocess.run(['python3', 'notes/seeded_table.py'], capture_output=True, text=True).stdout
table = '\n'.join(l for l in out.split('\n') if l.startswith('|'))
i = d.index('| property | changes (rounds)'); j = d.index('\n\n', i)
d = d[:i] + table + d[j:]
mt = subprocess.run(['python3', 'notes/mutation/table.py'], capture_output=True, text=True).stdout.strip()
a, b = '<!-- MUTATION-TABLE -->', '<!-- /MUTATION-TABLE -->'
if a in d:
    d = d[:d.index(a) + len(a)] + '\n' + mt + '\n' + d[d.index(b):]
open('DESIGN.md', 'w').write(d)
print(out.strip().split('\n')[-1])
