"""C02 (clean-tree observation, round 4): a rejected assignment to an Event parameter made from one of its
own watchers resets the Event although nothing was assigned: `Event.__set__` runs `_reset_event` in a
`finally`, also when `Parameter.__set__` raised from `_validate`.  Watchers of lower precedence in the same
dispatch then read False while their event says new=True.
Run: PYTHONPATH=<tree> python notes/c02_event_demo.py   (exit 1 = defect present)"""
import sys
import param


class A(param.Parameterized):
    ev = param.Event()


a = A()
seen = []


def first(event):
    before = a.ev
    try:
        a.ev = 'junk'            # rejected: ValueError
    except ValueError:
        pass
    seen.append(('first', before, a.ev))


def second(event):
    seen.append(('second', event.new, a.ev))


a.param.watch(first, 'ev', precedence=0)
a.param.watch(second, 'ev', precedence=1)
a.ev = True
problems = []
if seen[0] != ('first', True, True):
    problems.append(f'the rejected assignment changed the Event: before/after = {seen[0][1:]}')
if seen[1] != ('second', True, True):
    problems.append(f'the later watcher got new={seen[1][1]} but reads {seen[1][2]}')
if a.ev is not False:
    problems.append(f'after the dispatch the Event reads {a.ev}')
if problems:
    print('C02 VIOLATED:', '; '.join(problems))
    sys.exit(1)
print('ok', seen)
