import warnings, logging
warnings.simplefilter('ignore'); logging.disable(logging.CRITICAL)
import param
from param.parameterized import batch_call_watchers
class P(param.Parameterized):
    a = param.Number(0); b = param.Number(0); c = param.Number(0)
p = P(); log = []
def q(*e):
    p.b = 5
    raise RuntimeError('boom')
p.param.watch(q, ['a'], queued=True)
p.param.watch(lambda e: log.append((e.name, e.new)), ['b'])
p.param.watch(lambda e: None, ['c'])
try:
    with batch_call_watchers(p):
        p.a = 1
except RuntimeError: pass
before = list(log); pending = len(p.param._events)
p.c = 9
print('DEFECT' if pending or (not before and log) else 'ok', 'pending events after failed flush:', pending, 'before', before, 'after unrelated set', log)
