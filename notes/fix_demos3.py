import warnings, logging
warnings.simplefilter('ignore'); logging.disable(logging.CRITICAL)
import param, numbergen

def failed_add_parameter():
    class A(param.Parameterized):
        x = param.Number(5, bounds=(0, 10))
    class N(A): pass
    list(N.param)
    try: N.param.add_parameter('x', param.Number(default=50))
    except Exception: pass
    ok = N.x == 5 and N.param['x'].default == 5 and N.param['x'] is A.__dict__['x']
    return None if ok else f'failed add_parameter left N.x={N.x}, N.param[x].default={N.param["x"].default}'

def values_stale_copy_default():
    class A(param.Parameterized):
        y = param.Integer(2)
    class C(A): pass
    c = C(); c.param['y']
    A.y = 4
    return None if c.param.values()['y'] == c.y else f'c.y={c.y} but c.param.values()[y]={c.param.values()["y"]}'

def dynamic_time_minus_one():
    param.Dynamic.time_dependent = True
    tf = param.Dynamic.time_fn
    try:
        class A(param.Parameterized):
            x = param.Dynamic(default=numbergen.UniformRandom(name='g', seed=3, time_dependent=True))
        a = A()
        tf(-1); v1 = a.x
        tf(5); a.x
        tf(-1); v2 = a.x
        return None if v1 == v2 and v1 is not None else f'first read at time -1 returned {v1!r}, a later read at -1 returned {v2!r}'
    finally:
        tf(0); param.Dynamic.time_dependent = False

if __name__ == '__main__':
    for f in [failed_add_parameter, values_stale_copy_default, dynamic_time_minus_one]:
        try: r = f()
        except Exception as e: r = f'demo crashed: {type(e).__name__}: {e}'
        print(f'{f.__name__:28s}', 'DEFECT: ' + r if r else 'ok')
