import param
class A(param.Parameterized):
    s = param.Selector(objects={'a': {1, 2}, 'b': 3})
try:
    r = A.param.s.get_range()
    items = list(A.param.s.objects.items())
    ok = list(r.items()) == [('a', {1, 2}), ('b', 3)] and items == [('a', {1, 2}), ('b', 3)]
    print('ok' if ok else f'wrong: {r} {items}')
    raise SystemExit(0 if ok else 1)
except TypeError as e:
    print('DEFECT: get_range() raised', repr(e)); raise SystemExit(1)
