"""Each function returns a description string if the defect is PRESENT on the imported param, else None.
Run: PYTHONPATH=/repo /venv/bin/python notes/fix_demos.py"""
import math, warnings, logging
warnings.simplefilter('ignore'); logging.disable(logging.CRITICAL)
import param
from param.parameterized import batch_call_watchers

def range_nan():
    class A(param.Parameterized):
        r = param.Range(default=(0, 1), bounds=(0, 1))
    a = A()
    try:
        a.r = (math.nan, 0.5)
        return f'Range(bounds=(0,1)) accepted {a.r}'
    except ValueError:
        return None

def bytes_allow_none():
    p = param.Bytes(default=b'', allow_None=True)
    return None if p.allow_None else 'Bytes(default=b"", allow_None=True).allow_None is False'

def update_error_path():
    class P(param.Parameterized):
        a = param.Number(0, bounds=(0, 10)); b = param.Number(0, bounds=(0, 10))
    p = P(); log = []
    p.param.watch(lambda *ev: log.append([(e.name, e.new) for e in ev]), ['a', 'b'])
    try: p.param.update(a=1, b=99)
    except ValueError: pass
    r = []
    if not log: r.append('a=1 applied but not announced when update raised')
    p2 = P(); log2 = []
    p2.param.watch(lambda *ev: log2.append(1), ['a', 'b'])
    with batch_call_watchers(p2):
        try: p2.param.update(a=1, b=99)
        except ValueError: pass
        if not p2.param._BATCH_WATCH: r.append('surrounding batch switched off by failed update')
    return '; '.join(r) or None

def trigger_flag():
    class P(param.Parameterized):
        a = param.Number(0)
    p = P(); log = []
    def boom(*e): raise RuntimeError
    w = p.param.watch(boom, ['a'])
    try: p.param.trigger('a')
    except RuntimeError: pass
    p.param.unwatch(w)
    p.param.watch(lambda e: log.append(e.type), ['a'])
    p.a = 0
    return f'after failed trigger a same-value set is dispatched {log}' if log else None

def trigger_dup():
    class P(param.Parameterized):
        a = param.Number(0); b = param.Number(0)
    p = P(); log = []
    p.param.watch(lambda *ev: log.append([(e.name, e.new) for e in ev]), ['a', 'b'])
    with batch_call_watchers(p):
        p.a = 1
        p.param.trigger('b')
    return f'watcher ran {len(log)} times at flush: {log}' if len(log) != 1 else None

def setter_flush():
    class P(param.Parameterized):
        a = param.Number(0); b = param.Number(0); c = param.Number(0)
    p = P(); log = []
    def q(*e): p.b = 5
    def boom(*e): raise RuntimeError
    p.param.watch(q, ['a'], queued=True, precedence=1)
    p.param.watch(boom, ['a'], precedence=2)
    p.param.watch(lambda e: log.append((e.name, e.new)), ['b'])
    p.param.watch(lambda e: None, ['c'])
    try: p.a = 1
    except RuntimeError: pass
    before = list(log)
    p.c = 9
    return f'b event delivered only at later unrelated set: before={before} after={log}' if not before and log else None

def nested_ref_late():
    class S(param.Parameterized):
        v = param.Parameter(1)
    class T(param.Parameterized):
        c = param.Parameter(0, allow_refs=True, nested_refs=True)
    s = S(); t = T()
    t.c = {'k': [s.param.v]}
    s.v = 3
    return f'late nested ref stale: {t.c}' if t.c != {'k': [3]} else None

def ns_cache():
    class A(param.Parameterized):
        x = param.Number(1)
    class B(A): pass
    class C(B): pass
    list(C.param)
    B.x = 5
    r = []
    if C.param['x'].default != C.x: r.append(f'C.x={C.x} but C.param.x.default={C.param["x"].default}')
    A.param.add_parameter('z', param.Number(3))
    if 'z' not in C.param: r.append('z not in C.param though C.z works')
    return '; '.join(r) or None

def edit_constant():
    class K(param.Parameterized):
        c = param.Number(1)
    k1 = K(); k2 = K()
    k1.param.c.constant = True
    with param.edit_constant(k1):
        k1.c = 2
    try:
        k2.c = 5
        return None
    except TypeError:
        return 'edit_constant made the class Parameter constant: other instance not assignable'

def rx_shift():
    a = param.rx(2)
    r = []
    try: (1 << a).rx.value
    except Exception as e: r.append(f'1<<rx: {type(e).__name__}')
    try: (16 >> a).rx.value
    except Exception as e: r.append(f'16>>rx: {type(e).__name__}')
    class M:
        def __rmatmul__(s, o): return 'rmm'
    try:
        if (3 @ param.rx(M())).rx.value != 'rmm': r.append('matmul wrong')
    except Exception as e: r.append(f'3@rx(M()): {type(e).__name__}')
    return '; '.join(r) or None

if __name__ == '__main__':
    assert param.__file__.startswith('/repo/'), param.__file__
    for f in [range_nan, bytes_allow_none, update_error_path, trigger_flag, trigger_dup, setter_flush,
              nested_ref_late, ns_cache, edit_constant, rx_shift]:
        try: r = f()
        except Exception as e: r = f'demo crashed: {type(e).__name__}: {e}'
        print(f'{f.__name__:20s}', 'DEFECT: ' + r if r else 'ok')
