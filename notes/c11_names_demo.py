"""Selector `names` is inherited together with `objects` (finding C11 selector-names-not-inherited).
Prints one line per failed expectation; exit 1 on the unpatched tree, 0 with notes/c11-selector-names-inherited.diff."""
import sys, warnings, logging
warnings.simplefilter('ignore'); logging.disable(logging.CRITICAL)
import param

bad = []
def expect(label, got, want):
    if got != want:
        bad.append(f'{label}: {got!r}, expected {want!r}')

class A(param.Parameterized):
    x = param.Selector(objects={'a': 1, 'b': 2})
class B(A):
    x = param.Selector(default=2)                      # objects (and so names) left unspecified
class C(B):
    x = param.Selector(objects=[7, 8])                 # objects given as a list: own (empty) names
class D(B):
    pass
expect('B inherits objects', list(B.param.x.objects), [1, 2])
expect('B inherits names with them', dict(B.param.x.names), {'a': 1, 'b': 2})
expect('B.get_range()', dict(B.param.x.get_range()), {'a': 1, 'b': 2})
expect('B.names is a copy, not A\'s dict', B.param.x.names is A.param.x.names, False)
expect('C specifies objects: no names', dict(C.param.x.names), {})
expect('C.get_range()', dict(C.param.x.get_range()), {'7': 7, '8': 8})
expect('instance of D', dict(D().param.x.get_range()), {'a': 1, 'b': 2})
B.param.x.objects['c'] = 3                            # dict-style update of the inherited mapping stays private to B
expect('B after objects[c]=3', dict(B.param.x.get_range()), {'a': 1, 'b': 2, 'c': 3})
expect('A untouched', dict(A.param.x.get_range()), {'a': 1, 'b': 2})
# unchanged behaviour
p = param.Selector()
expect('unbound Selector()', (dict(p.names), list(p.objects), dict(p.get_range())), ({}, [], {}))
p = param.Selector(objects=[1, 2])
expect('unbound list Selector', (dict(p.names), dict(p.get_range())), ({}, {'1': 1, '2': 2}))
class E(param.Parameterized):
    x = param.Selector(default=3)
expect('root Selector without objects', (dict(E.param.x.names), list(E.param.x.objects)), ({}, [3]))
class F(param.Parameterized):
    y = param.ListSelector(objects={'u': 1, 'v': 2})
class G(F):
    y = param.ListSelector(default=[2])
expect('ListSelector too', dict(G.param.y.get_range()), {'u': 1, 'v': 2})
for b in bad:
    print(b)
sys.exit(1 if bad else 0)
