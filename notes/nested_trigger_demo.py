import warnings, logging
warnings.simplefilter('ignore'); logging.disable(logging.CRITICAL)
import param
class P(param.Parameterized):
    a = param.Number(0); b = param.Number(0)
p = P(); log = []
def first(*ev): p.param.trigger('b')        # nested trigger from a triggered callback
p.param.watch(first, ['a'], precedence=0)
p.param.watch(lambda e: log.append((e.name, e.type)), ['a'], precedence=1)
p.param.trigger('a')
print('DEFECT' if log != [('a', 'triggered')] else 'ok', log)
