"""usage: record_from_log.py <round-tag> <log files...> — write seeded/<ID>-<tag>t<k> from process_mutants log lines (idempotent)"""
import ast, json, os, re, shutil, sys
tag = sys.argv[1]
for log in sys.argv[2:]:
    for line in open(log):
        m = re.match(r'(C\d+) mut(\d+): demo clean=(\d+) mutant=(\d+); suite: (.*); confirmed=\w+; checks=(\{.*\})', line)
        if not m:
            continue
        pid, k, c, mu, tail, out = m.group(1), m.group(2), int(m.group(3)), int(m.group(4)), re.sub(r'\x1b\[[0-9;]*m', '', m.group(5)), ast.literal_eval(m.group(6))
        if not (c == 0 and mu == 1 and re.search(r'\d+ passed', tail) and not re.search(r'\d+ (failed|error)', tail)):
            print('NOT CONFIRMED', line.strip()[:200]); continue
        base = f'/tmp/rt/{pid}b_mut{k}'
        sd = f'/verif/seeded/{pid}-{tag}t{k}'
        os.makedirs(sd, exist_ok=True)
        shutil.copy(base + '.diff', sd + '/patch.diff'); shutil.copy(base + '_demo.py', sd + '/demo.py')
        meta = json.load(open(base + '.json')) if os.path.exists(base + '.json') else {}
        old = json.load(open(sd + '/meta.json')) if os.path.exists(sd + '/meta.json') else {}
        meta.update({'property': pid, 'tests': tail,
                     'origin': 'independent sub-agent given only the property text and a scratch worktree (second round: told which ideas were already used)',
                     'confirmed': f'demo exits 0 on the clean tree and 1 with the patch; full suite with the patch: {tail} (re-run by the lead in /tmp/rt/{pid})',
                     'first_result': old.get('first_result', out.get(pid, '?')), 'results': out,
                     'checks_run': './check <id> --tier quick with VERIF_REPO=<scratch copy of /repo with the patch>'})
        if old.get('first_result') and old.get('first_result') != out.get(pid):
            meta['current_result'] = out.get(pid)
        json.dump(meta, open(sd + '/meta.json', 'w'), indent=1)
        print(sd, out)
