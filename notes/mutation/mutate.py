"""Mechanical mutation of the source functions a property is anchored in (the SOURCES list of its plugin).

    python notes/mutation/mutate.py list  <ID> [--max N] [--seed S]      print the mutants (one JSON per line)
    python notes/mutation/mutate.py run   <ID> [--max N] [--seed S] [--jobs J]

`run`: for every mutant, a scratch copy of /repo's param/, numbergen/, tests/ under /tmp is patched; the mutant must
compile and import; the repo's own test suite is run on it (-x); mutants the suite does not notice (the "survivors",
i.e. realistic changes that still pass the existing tests) are handed to `./check <ID> --tier quick` through VERIF_REPO.
Results go to /verif/mutation/<ID>.jsonl (one line per mutant: site, operator, killed-by-tests | caught | missed).
Nothing touches /repo; every scratch copy is removed.

Operators (classic first-order ones, applied on the AST with exact source spans):
  del     a simple statement (expression, assignment, augmented assignment, raise, delete) becomes `pass`
  ret     `return <expr>` becomes `return None`
  neg     the test of an if / while / conditional expression / comprehension filter is negated
  cmp     is<->is not, ==<->!=, in<->not in, <<-><=, ><->>=
  bool    and<->or
  const   True<->False
  fin     try/finally: the finally block runs only when the body succeeds (dedented after the try)
  brk     break<->continue
"""
import ast, concurrent.futures as cf, hashlib, re, importlib, json, os, random, shutil, subprocess, sys, tempfile

REPO = '/repo'
VERIF = '/verif'
OUT = os.path.join(VERIF, 'mutation')


def find_node(tree, qual):
    node = tree
    for part in qual.split('.'):
        node = next(n for n in ast.walk(node) if isinstance(n, (ast.FunctionDef, ast.ClassDef, ast.AsyncFunctionDef)) and n.name == part)
    return node


class Src:
    def __init__(self, text):
        self.text = text
        self.lines = text.split('\n')
        self.starts = [0]
        for l in self.lines:
            self.starts.append(self.starts[-1] + len(l.encode()) + 1)
        self.bytes = text.encode()

    def off(self, lineno, col):
        return self.starts[lineno - 1] + col

    def span(self, n):
        return self.off(n.lineno, n.col_offset), self.off(n.end_lineno, n.end_col_offset)

    def seg(self, n):
        a, b = self.span(n)
        return self.bytes[a:b].decode()

    def replace(self, a, b, new):
        return (self.bytes[:a] + new.encode() + self.bytes[b:]).decode()


CMP = {ast.Is: 'is not', ast.IsNot: 'is', ast.Eq: '!=', ast.NotEq: '==', ast.In: 'not in', ast.NotIn: 'in',
       ast.Lt: '<=', ast.LtE: '<', ast.Gt: '>=', ast.GtE: '>'}


def is_docstring(stmt, parent):
    return (isinstance(stmt, ast.Expr) and isinstance(stmt.value, ast.Constant) and isinstance(stmt.value.value, str))


def mutants_of(src, fn, file, qual):
    """yield (lineno, op, description, new_text)"""
    for node in ast.walk(fn):
        if isinstance(node, (ast.Expr, ast.Assign, ast.AugAssign, ast.AnnAssign, ast.Raise, ast.Delete)):
            if is_docstring(node, None):
                continue
            a, b = src.span(node)
            yield node.lineno, 'del', f'statement `{src.seg(node)[:70]}` removed', src.replace(a, b, 'pass')
        if isinstance(node, ast.Return) and node.value is not None and not (isinstance(node.value, ast.Constant) and node.value.value is None):
            a, b = src.span(node.value)
            yield node.lineno, 'ret', f'`return {src.seg(node.value)[:60]}` returns None', src.replace(a, b, 'None')
        tests = []
        if isinstance(node, (ast.If, ast.While, ast.IfExp)):
            tests.append(node.test)
        if isinstance(node, ast.comprehension):
            tests += node.ifs
        for t in tests:
            a, b = src.span(t)
            yield t.lineno, 'neg', f'condition `{src.seg(t)[:70]}` negated', src.replace(a, b, f'(not ({src.seg(t)}))')
        if isinstance(node, ast.Compare) and len(node.ops) == 1 and type(node.ops[0]) in CMP:
            l, r = node.left, node.comparators[0]
            a, b = src.span(l)[1], src.span(r)[0]
            yield node.lineno, 'cmp', f'`{src.seg(node)[:70]}`: operator becomes `{CMP[type(node.ops[0])]}`', src.replace(a, b, f' {CMP[type(node.ops[0])]} ')
        if isinstance(node, ast.BoolOp) and len(node.values) == 2:
            l, r = node.values
            a, b = src.span(l)[1], src.span(r)[0]
            mid = src.bytes[a:b].decode()
            if '#' in mid or '\n' in mid:
                continue
            new = 'or' if isinstance(node.op, ast.And) else 'and'
            yield node.lineno, 'bool', f'`{src.seg(node)[:70]}`: operator becomes `{new}`', src.replace(a, b, f' {new} ')
        if isinstance(node, ast.Constant) and isinstance(node.value, bool):
            a, b = src.span(node)
            yield node.lineno, 'const', f'`{node.value}` becomes `{not node.value}` (line: {src.lines[node.lineno - 1].strip()[:60]})', src.replace(a, b, str(not node.value))
        if isinstance(node, ast.Try) and node.finalbody and not node.handlers and not node.orelse:
            # try: B finally: F   ->   B ; F
            body_a = src.off(node.body[0].lineno, 0)
            body_b = src.span(node.body[-1])[1]
            fin_a = src.off(node.finalbody[0].lineno, 0)
            fin_b = src.span(node.finalbody[-1])[1]
            ind = node.col_offset

            def dedent(text, by):
                return '\n'.join(l[by:] if l[:by].strip() == '' else l for l in text.split('\n'))
            btxt = src.bytes[body_a:body_b].decode()
            ftxt = src.bytes[fin_a:fin_b].decode()
            by = node.body[0].col_offset - ind
            new = dedent(btxt, by) + '\n' + dedent(ftxt, node.finalbody[0].col_offset - ind)
            a = src.off(node.lineno, 0)
            yield node.lineno, 'fin', f'try/finally at line {node.lineno}: the finally block only runs when the body succeeds', src.replace(a, fin_b, new)
        if isinstance(node, (ast.Break, ast.Continue)):
            a, b = src.span(node)
            yield node.lineno, 'brk', f'`{src.seg(node)}` swapped', src.replace(a, b, 'continue' if isinstance(node, ast.Break) else 'break')


def enumerate_mutants(pid, maxn, seed):
    plugin = importlib.import_module(f'harness.props.{pid.lower()}')
    out = []
    seen_fn = set()
    for file, qual in plugin.SOURCES:
        if (file, qual) in seen_fn:
            continue
        seen_fn.add((file, qual))
        text = open(os.path.join(REPO, file)).read()
        src = Src(text)
        try:
            fn = find_node(ast.parse(text), qual)
        except StopIteration:
            continue
        for lineno, op, desc, new in mutants_of(src, fn, file, qual):
            if new == text:
                continue
            try:
                ast.parse(new)
            except SyntaxError:
                continue
            mid = hashlib.sha1(f'{file}:{new}'.encode()).hexdigest()[:10]
            out.append({'id': mid, 'file': file, 'func': qual, 'line': lineno, 'op': op, 'what': desc, '_new': new})
    # one mutant per id; a deterministic sample spread over the operators and functions
    uniq = {}
    for m in out:
        uniq.setdefault(m['id'], m)
    out = sorted(uniq.values(), key=lambda m: (m['file'], m['line'], m['op'], m['id']))
    if maxn and len(out) > maxn:
        rng = random.Random(f'{pid}/{seed}')
        # `fin` and `brk` are rare and valuable: keep all of them
        keep = [m for m in out if m['op'] in ('fin', 'brk')]
        rest = [m for m in out if m['op'] not in ('fin', 'brk')]
        rng.shuffle(rest)
        out = sorted(keep + rest[:max(0, maxn - len(keep))], key=lambda m: (m['file'], m['line'], m['op'], m['id']))
    return out


def run_one(pid, m, suite_jobs, checks):
    d = tempfile.mkdtemp(prefix=f'mut_{pid}_{m["id"]}_', dir='/tmp')
    rec = {k: v for k, v in m.items() if not k.startswith('_')}
    try:
        for sub in ('param', 'numbergen', 'tests'):
            shutil.copytree(os.path.join(REPO, sub), os.path.join(d, sub), ignore=shutil.ignore_patterns('__pycache__'))
        shutil.copy(os.path.join(REPO, 'pyproject.toml'), d)
        open(os.path.join(d, m['file']), 'w').write(m['_new'])
        env = dict(os.environ, PYTHONPATH=d, PYTHONDONTWRITEBYTECODE='1')
        r = subprocess.run(['/venv/bin/python', '-c', 'import param, param.reactive, param.serializer, numbergen'], cwd=d, env=env, capture_output=True, text=True, timeout=120)
        if r.returncode != 0:
            rec['result'] = 'does-not-import'
            return rec
        try:
            r = subprocess.run(['/venv/bin/python', '-m', 'pytest', '-q', '-x', '-p', 'no:cacheprovider', '--color=no', '--timeout=120',
                                '-n', str(suite_jobs), 'tests'], cwd=d, env=env, capture_output=True, text=True, timeout=600)
            tail = r.stdout.strip().splitlines()[-1] if r.stdout.strip() else ''
            passed = r.returncode == 0 and re.search(r'\b\d+ passed', tail) is not None and not re.search(r'\b\d+ (failed|errors?)\b', tail)
        except subprocess.TimeoutExpired:
            passed, tail = False, 'suite timed out'
        if not passed:
            rec['result'] = 'killed-by-tests'
            rec['suite'] = tail[:120]
            return rec
        rec['suite'] = tail[:120]
        rec['checks'] = {}
        for chk in checks:
            try:
                r = subprocess.run(['./check', chk, '--tier', 'quick'], cwd=VERIF, env=dict(os.environ, VERIF_REPO=d), capture_output=True, text=True, timeout=1500)
            except subprocess.TimeoutExpired:
                rec['checks'][chk] = 'check-timeout'
                continue
            viol = [l for l in r.stdout.splitlines() if l.startswith('VIOLATION')]
            if r.returncode == 0:
                rec['checks'][chk] = 'missed'
            elif r.returncode == 1 and viol:
                rec['checks'][chk] = 'caught (no-failing-input-found)' if all('no-failing-input-found' in v for v in viol) else 'caught (counterexample)'
            else:
                rec['checks'][chk] = f'infra-error rc={r.returncode}'
                rec['tail'] = (r.stdout + r.stderr)[-300:]
        vals = list(rec['checks'].values())
        rec['result'] = ('caught (counterexample)' if 'caught (counterexample)' in vals else
                         'caught (no-failing-input-found)' if 'caught (no-failing-input-found)' in vals else
                         'missed' if all(v == 'missed' for v in vals) else 'infra-error')
        return rec
    finally:
        shutil.rmtree(d, ignore_errors=True)
        shutil.rmtree(os.path.join(VERIF, 'replays', 'scratch', os.path.basename(d)), ignore_errors=True)


def main():
    import argparse
    ap = argparse.ArgumentParser()
    ap.add_argument('cmd', choices=['list', 'run'])
    ap.add_argument('pid')
    ap.add_argument('--max', type=int, default=60)
    ap.add_argument('--seed', default='0')
    ap.add_argument('--jobs', type=int, default=3)
    ap.add_argument('--suite-jobs', type=int, default=4)
    ap.add_argument('--checks', default='', help='comma list of checks to run on the survivors (default: the property itself)')
    a = ap.parse_args()
    sys.path.insert(0, VERIF)
    sys.path.insert(0, REPO)
    pid = a.pid.upper()
    ms = enumerate_mutants(pid, a.max, a.seed)
    if a.cmd == 'list':
        for m in ms:
            print(json.dumps({k: v for k, v in m.items() if not k.startswith('_')}))
        print(len(ms), 'mutants', file=sys.stderr)
        return
    os.makedirs(OUT, exist_ok=True)
    path = os.path.join(OUT, f'{pid}.jsonl')
    # a mutant already judged is recognised by (file, function, operator, description, k-th such) - not by its id,
    # which changes with every unrelated edit of the file
    def keys(recs):
        seen = {}
        out = []
        for r in sorted(recs, key=lambda r: (r['file'], r['line'])):
            k = (r['file'], r['func'], r['op'], r['what'])
            seen[k] = seen.get(k, 0) + 1
            out.append((k + (seen[k],), r))
        return out
    done = {}
    if os.path.exists(path):
        done = dict(keys([json.loads(l) for l in open(path)]))
    head = subprocess.run(['git', '-C', REPO, 'rev-parse', '--short', 'HEAD'], capture_output=True, text=True).stdout.strip()
    todo = [m for k, m in keys(ms) if k not in done]
    checks = [c.upper() for c in a.checks.split(',') if c] or [pid]
    with cf.ThreadPoolExecutor(a.jobs) as ex:
        for rec in ex.map(lambda m: run_one(pid, m, a.suite_jobs, checks), todo):
            rec['repo'] = head
            print(pid, rec['file'].split('/')[-1], rec['line'], rec['op'], rec['result'], flush=True)
            with open(path, 'a') as f:
                f.write(json.dumps(rec, sort_keys=True) + '\n')


if __name__ == '__main__':
    main()
