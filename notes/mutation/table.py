"""print the markdown table of the mechanical mutation sweeps (/verif/mutation/<ID>.jsonl)"""
import collections, glob, json, os
rows = []
tot = collections.Counter()
for f in sorted(glob.glob('/verif/mutation/C*.jsonl')):
    pid = os.path.basename(f)[:-6]
    rs = [json.loads(l) for l in open(f)]
    c = collections.Counter(r['result'] for r in rs)
    surv = len(rs) - c['killed-by-tests'] - c['does-not-import']
    caught = c['caught (counterexample)'] + c['caught (no-failing-input-found)']
    rows.append(f"| {pid} | {len(rs)} | {c['does-not-import']} | {c['killed-by-tests']} | {surv} | {c['caught (counterexample)']} / {c['caught (no-failing-input-found)']} | {c['missed']} | {sum(v for k, v in c.items() if k.startswith('infra') or k.startswith('check-'))} |")
    for k, v in c.items(): tot[k] += v
    tot['n'] += len(rs); tot['surv'] += surv
print('| property | mutants | do not import | killed by the test-suite | survive the suite | of those caught: counterexample / no-failing-input-found | missed | run error |')
print('|---|---|---|---|---|---|---|---|')
print('\n'.join(rows))
print(f"| all | {tot['n']} | {tot['does-not-import']} | {tot['killed-by-tests']} | {tot['surv']} | {tot['caught (counterexample)']} / {tot['caught (no-failing-input-found)']} | {tot['missed']} | |")
