#!/bin/bash
# usage: notes/mutation/sweep_all.sh "<ids>" [max]   -- mechanical mutation sweep, one property after the other
cd "$(dirname "$0")/../.."
for i in $1; do
  /venv/bin/python notes/mutation/mutate.py run $i --max ${2:-60} --jobs 4 --suite-jobs 3 > notes/mutation/$i.log 2>&1
  echo "$i done: $(python3 -c "
import json,collections,sys
print(dict(collections.Counter(json.loads(l)['result'] for l in open('mutation/$i.jsonl'))))")"
done
