import warnings, logging
warnings.simplefilter('ignore'); logging.disable(logging.CRITICAL)
import param
class S(param.Parameterized):
    v = param.Number(1)
class T(param.Parameterized):
    a = param.Number(0, allow_refs=True)
def wc(o): return sum(len(v.get('value', [])) for v in o._param__private.watchers.values())
s = S(); t = T(a=s.param.v)
t.a = 4
print('DEFECT: source keeps %d watcher(s) on behalf of an overridden link' % wc(s) if wc(s) else 'ok')
