"""Run with PYTHONPATH=<tree> python C19-shared-clock-deepcopy-demo.py (exit 1 = defect present).
C19 observation: a numbergen generator built with an explicit time_fn=T and used as a class default is
deep-copied per instance together with T: the instance's generator follows a frozen copy of the clock."""
import sys, warnings, logging
warnings.simplefilter('ignore'); logging.disable(logging.CRITICAL)
import param, numbergen as ng
problems = []
saved = param.Dynamic.time_dependent
param.Dynamic.time_dependent = True
try:
    T = param.Dynamic.time_fn
    T(0)
    class P(param.Parameterized):
        x = param.Dynamic(default=ng.UniformRandom(name='g', seed=1, time_dependent=True, time_fn=T))
        y = param.Dynamic(default=ng.UniformRandom(name='g', seed=1, time_dependent=True))
    p = P()
    gx = p.param.get_value_generator('x')
    if gx.time_fn is not T:
        problems.append('the instance generator has its own copy of the time function')
    vals = []
    for t in (0, 1, 2):
        T(t)
        vals.append((p.x, p.y, P.x))
    for t, (a, b, c) in enumerate(vals):
        if not (a == b == c):
            problems.append(f't={t}: instance x {a!r}, instance y {b!r}, class x {c!r}')
finally:
    param.Dynamic.time_dependent = saved
    param.Dynamic.time_fn(0)
for q in problems: print('PROBLEM', q)
sys.exit(1 if problems else 0)
