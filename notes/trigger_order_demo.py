import warnings, logging
warnings.simplefilter('ignore'); logging.disable(logging.CRITICAL)
import param
from param.parameterized import batch_call_watchers, discard_events
class P(param.Parameterized):
    a = param.Number(0)
p = P(); log = []
p.param.watch(lambda e: log.append((e.name, e.new, p.a)), ['a'], onlychanged=False)
with batch_call_watchers(p):
    p.a = 7
    with discard_events(p):
        p.a = 1
    p.param.trigger('a')
print('DEFECT' if log != [('a', 1, 1)] else 'ok', log, '(event.new must be the value the object holds: 1)')
