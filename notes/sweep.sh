#!/bin/bash
# usage: notes/sweep.sh <tier> <seeds comma> [ids comma]  -- runs checks on the clean tree with several seeds, prints a table
tier=${1:-quick}; seeds=${2:-1,2,3}; ids=${3:-C01,C02,C03,C04,C05,C06,C07,C08,C09,C10,C11,C12,C13,C14,C15,C16,C17,C18,C19,C20}
out=${SWEEP_OUT:-/tmp/sweep}; mkdir -p $out
cd "$(dirname "$0")/.."
export VERIF_NO_EVIDENCE=1   # keep the evidence files of the last regular run
for s in ${seeds//,/ }; do for i in ${ids//,/ }; do echo "$s $i"; done; done | \
 xargs -P ${SWEEP_JOBS:-4} -L1 bash -c 'VERIF_SEED=$0 ./check $1 --tier '"$tier"' > '"$out"'/$1.$0.log 2>&1; echo "$1 seed=$0 rc=$? $(grep -c "^VIOLATION" '"$out"'/$1.$0.log) violations $(grep -c "^KNOWN-FINDING" '"$out"'/$1.$0.log) known"'
