"""Copy the builders' per-property texts (notes/design/*.md) into DESIGN.md section 5 and their FALSE-ALARMS bullets
(those not there yet) to the end of section 6.3; regenerate the table of section 6.2 from KNOWN_FINDINGS.txt."""
import glob, os, re
os.chdir(os.path.join(os.path.dirname(__file__), '..'))
d = open('DESIGN.md').read()
new_fa = []
for f in sorted(glob.glob('notes/design/*.md')):
    n = open(f).read().strip()
    body, _, fa = n.partition('\nFALSE-ALARMS:')
    head = body.split('\n', 1)[0]
    key = head.split('—')[0].strip()          # "### C12 / C17"
    m = re.search(re.escape(key) + r' —', d)
    if not m:
        print('no section for', f, key); continue
    i = m.start(); j = d.index('\n##', i + 5)
    d = d[:i] + body.strip() + '\n' + d[j:]
    flat = re.sub(r'\s+', ' ', d)
    for b in re.split(r'\n[\*-] ', '\n' + fa.strip()):
        b = b.strip().lstrip('*- ').strip()
        if b and re.sub(r'\s+', ' ', b)[:50] not in flat:
            new_fa.append(b)
i = d.index('## 7. Hooks and commits')
if new_fa:
    d = d[:i].rstrip('\n') + '\n' + ''.join(f'* {b}\n' for b in new_fa) + '\n' + d[i:]
# 6.2
fs = []
for l in open('KNOWN_FINDINGS.txt'):
    m = re.match(r'finding: property=(C\d+) key=(\S+) (.*)', l.strip())
    if m: fs.append(m.groups())
nfixed = sum(1 for l in open('KNOWN_FINDINGS.txt') if l.startswith('fixed:'))
fs.sort(key=lambda x: x[0])
i = d.index('| property | key | what fails'); j = d.index('\n\n', i)
have = {}
for r in d[i:j].split('\n')[2:]:
    m = re.match(r'\| (C\d+) \| `([^`]+)`', r)
    if m: have[m.groups()] = r
rows = []
for p, k, t in fs:
    if (p, k) in have: rows.append(have[(p, k)])
    else:
        t = t.replace('|', '\\|'); rows.append(f'| {p} | `{k}` | {t[:300]}{"…" if len(t) > 300 else ""} |'); print('new finding row', p, k)
gone = set(have) - {(p, k) for p, k, _ in fs}
for g in gone: print('finding row removed', g)
d = d[:i] + '| property | key | what fails (abridged; full text and witness in KNOWN_FINDINGS.txt) |\n|---|---|---|\n' + '\n'.join(rows) + d[j:]
d = re.sub(r'\d+ findings are listed, \d+ `fixed:` lines', f'{len(fs)} findings are listed, {nfixed} `fixed:` lines', d)
open('DESIGN.md', 'w').write(d)
print(len(new_fa), 'new false-alarm bullets;', len(fs), 'findings,', nfixed, 'fixed lines')
