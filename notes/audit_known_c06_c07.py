"""usage (from /verif): PYTHONPATH=/repo:/verif PARAM_VERIF=1 /venv/bin/python notes/audit_known_c06_c07.py [N07] [N06] [seed]

Counterfactual audit of the known-finding classifiers of C06 / C07 on the clean tree: every generated case whose
oracle failure is classified as a recorded finding is re-run with the finding's SHAPE removed (and nothing else
changed); the failure must then be gone up to and including the step it was reported for.  A case that still
fails there was classified too broadly (the classifier would hide something else).  Prints per key: classified,
explained (failure gone), unexplained (with the first few cases)."""
import copy
import importlib
import json
import random
import re
import sys

from harness import common, run

N07 = int(sys.argv[1]) if len(sys.argv) > 1 else 6000
N06 = int(sys.argv[2]) if len(sys.argv) > 2 else 6000
SEED = sys.argv[3] if len(sys.argv) > 3 else '0'


def collect(plugin, n, seed):
    rng = random.Random(f'{seed}/audit')
    drv = common.Driver(plugin.DRIVER)
    out = []
    gen = plugin.cases(rng, 'thorough', 0, 1)
    cases = []
    for c in gen:
        cases.append(c)
        if len(cases) >= n:
            break
    try:
        for k in range(0, len(cases), 400):
            chunk = cases[k:k + 400]
            impls = [plugin.run_impl(c) for c in chunk]
            answers = drv.ask_many([{'case': c, 'impl': i} for c, i in zip(chunk, impls)])
            for c, i, r in zip(chunk, impls, answers):
                kind, why = run.judge(plugin, c, i, r)
                if kind != 'ok':
                    f = {'kind': kind, 'why': why, 'case': c, 'impl': i}
                    out.append((plugin.classify(c, i, f), f))
    finally:
        drv.close()
    return out


def verdict(plugin, drv, case):
    i = plugin.run_impl(case)
    r = drv.ask_many([{'case': case, 'impl': i}])[0]
    return run.judge(plugin, case, i, r)


def step_of(why):
    m = re.search(r'step=(\d+)', str(why))
    return int(m.group(1)) if m else None


# ---- shape removal, C07 (object numbering must not change: `new` steps stay where they are)

def c07_unbatch(case, step):
    """the batched/discarded step replaced by the same assignments made one by one"""
    st = case['steps'][step]
    singles = [{'op': 'set', 'o': st['o'], 'p': k, 'v': v} for k, v in st['kvs']]
    return dict(case, steps=case['steps'][:step] + singles + case['steps'][step + 1:]), step + len(singles) - 1


def c07_last_only(case, step):
    """a block with repeated keys: only the last assignment of every key is kept"""
    st = case['steps'][step]
    kvs, seen = [], set()
    for k, v in reversed(st['kvs']):
        if k not in seen:
            seen.add(k)
            kvs.insert(0, [k, v])
    return dict(case, steps=case['steps'][:step] + [dict(st, kvs=kvs)] + case['steps'][step + 1:]), step


def c07_no_raise(case, step):
    cl = copy.deepcopy(case['classes'])
    for c in cl:
        for m in c['methods']:
            m.pop('raises', None)
    return dict(case, classes=cl), step


def c07_discard_to_sets(case, step):
    return c07_unbatch(case, step)


C07_REMOVE = {
    'batch-two-roots-stale-queued-watcher': c07_unbatch,
    'batch-repeated-key-compares-intermediate-object': c07_last_only,
    'raise-in-one-method-skips-rebinding-of-another': c07_no_raise,
    'discard-events-on-intermediate-loses-rebinding': c07_discard_to_sets,
}


# ---- shape removal, C06: the batch of the failing step dissolved into its statements

def c06_unbatch(case, step):
    def flat(b):
        out = []
        for s in b['body']:
            out += flat(s) if s['op'] == 'batch' else [s]
        return out
    op = case['ops'][step]
    body = flat(op)
    c2 = dict(case, ops=case['ops'][:step] + body + case['ops'][step + 1:])
    return c2, step + len(body) - 1


C06_REMOVE = {'value-and-slot-two-groups': c06_unbatch}


def audit(name, n, remove):
    plugin = importlib.import_module(f'harness.props.{name}')
    fails = collect(plugin, n, SEED)
    print(f'{name}: {n} cases, {len(fails)} oracle failures / mismatches, {sum(1 for k, _ in fails if k is None)} unclassified')
    drv = common.Driver(plugin.DRIVER)
    try:
        per = {}
        for key, f in fails:
            if key is None:
                print('  UNCLASSIFIED:', f['kind'], str(f['why'])[:200])
                continue
            d = per.setdefault(key, {'n': 0, 'explained': 0, 'bad': []})
            d['n'] += 1
            if key not in remove:
                continue
            step = step_of(f['why'])
            c2, upto = remove[key](f['case'], step)
            kind, why = verdict(plugin, drv, c2)
            s2 = step_of(why)
            # gone = no failure, or the first failure lies strictly after the (image of the) reported step
            if kind == 'ok' or (kind == 'counterexample' and s2 is not None and s2 > upto):
                d['explained'] += 1
            else:
                d['bad'].append((f['why'], why, f['case']))
        for key, d in sorted(per.items()):
            if key in remove:
                print(f'  {key}: classified {d["n"]}, failure gone once the shape is removed: {d["explained"]}, NOT gone: {len(d["bad"])}')
                for a, b, c in d['bad'][:3]:
                    print('     was:', str(a)[:160])
                    print('     now:', str(b)[:160])
                    print('     case:', json.dumps(c)[:600])
            else:
                print(f'  {key}: classified {d["n"]} (no shape removal defined)')
    finally:
        drv.close()


if N07:
    audit('c07', N07, C07_REMOVE)
if N06:
    audit('c06', N06, C06_REMOVE)
