"""usage: run_diffs.py <check-ids comma> <diff files...> — apply each diff to a scratch copy of /repo's working tree and run the checks"""
import os, shutil, subprocess, sys
checks = sys.argv[1].split(',')
tier = os.environ.get('TIER', 'quick')
for diff in sys.argv[2:]:
    diff = os.path.abspath(diff)
    label = os.path.basename(diff).replace('.diff', '')
    if label == 'patch':
        label = os.path.basename(os.path.dirname(diff))
    d = f'/tmp/mut/work_{label}_{os.getpid()}'
    shutil.rmtree(d, ignore_errors=True); os.makedirs(d)
    for sub in ('param', 'numbergen'):
        shutil.copytree('/repo/' + sub, d + '/' + sub)
    r = subprocess.run(['patch', '-p1', '-s', '-d', d, '-i', diff], capture_output=True, text=True)
    if r.returncode != 0:
        print(label, 'PATCH FAILED', r.stdout[-300:], r.stderr[-200:]); continue
    out = {}
    for chk in checks:
        r = subprocess.run(['./check', chk, '--tier', tier], cwd='/verif', env=dict(os.environ, VERIF_REPO=d), capture_output=True, text=True)
        viol = [l for l in r.stdout.splitlines() if l.startswith('VIOLATION')]
        out[chk] = (r.returncode, 'nofail' if viol and all('no-failing-input-found' in v for v in viol) else ('cex' if viol else ''))
        if r.returncode == 2: out[chk] = (2, r.stdout[-200:])
    print(label, out, flush=True)
    shutil.rmtree(d, ignore_errors=True)
