import asyncio, warnings, logging
warnings.simplefilter('ignore'); logging.disable(logging.CRITICAL)
import param
class P(param.Parameterized):
    a = param.Parameter(0, allow_refs=True)
    b = param.Parameter(0, allow_refs=True)
async def ticks(n=6):
    for _ in range(n): await asyncio.sleep(0)
async def plain_while_suspended():
    loop = asyncio.get_running_loop(); p = P(); f0 = loop.create_future()
    async def c(): return await f0
    p.a = c; await ticks(); p.a = 100; (f0.done() or f0.set_result(10)); await ticks()
    return None if p.a == 100 else f'(a) plain value assigned while the coroutine was suspended was overwritten: a={p.a}'
async def overlapping():
    loop = asyncio.get_running_loop(); p = P(); f0, f1 = loop.create_future(), loop.create_future()
    async def c0(): return await f0
    async def c1(): return await f1
    p.a = c0; p.b = c1; await ticks(); (f0.done() or f0.set_result(10)); await ticks(); (f1.done() or f1.set_result(20)); await ticks()
    s = p._param__private.syncing
    return None if not s else f'(b) syncing stuck at {set(s)} after both results arrived'
async def plain_before_start():
    loop = asyncio.get_running_loop(); p = P(); f0 = loop.create_future()
    async def c(): return await f0
    p.a = c; p.a = 100; await ticks(); (f0.done() or f0.set_result(10)); await ticks()
    return None if p.a == 100 else f'(d) plain value assigned before the task started was overwritten: a={p.a}'
async def reassign_before_start():
    loop = asyncio.get_running_loop(); p = P(); f = [loop.create_future() for _ in range(3)]
    def gen(k):
        async def g(): yield await f[k]
        return g
    p.a = gen(0); p.a = gen(1); await ticks(); p.a = gen(2); await ticks(); (f[2].done() or f[2].set_result(30)); await ticks(); (f[1].done() or f[1].set_result(20)); await ticks()
    return None if p.a == 30 else f'(c) a superseded async generator wrote after the newest one: a={p.a}'
for fn in (plain_while_suspended, overlapping, reassign_before_start, plain_before_start):
    r = asyncio.run(fn())
    print(f'{fn.__name__:24s}', 'DEFECT: ' + r if r else 'ok')
