import param
from param.parameterized import batch_call_watchers
class S(param.Parameterized):
    x = param.Integer(0)
class P(param.Parameterized):
    s = param.Parameter()
    calls = []
    @param.depends('s.x', watch=True)
    def m(self):
        P.calls.append(self.s.x)
p = P(s=S(x=1))
with batch_call_watchers(p):
    p.s = S(x=0); p.s = S(x=0)
print('x 1->0 through two replacements in one batch: calls', P.calls, '(expected [0])')
# With this patch alone the method is called TWICE (the stale queued watcher of
# notes/c07-batch-stale-queued-watcher.diff); with both patches: exactly once.
import sys
sys.exit(0 if P.calls == [0] else 1)
