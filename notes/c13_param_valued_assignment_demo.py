"""C13 clean-tree defect: class-level assignment of a Parameter object (`C.y = param.Integer()`).
Exit 1 on the clean tree, 0 with notes/c13-proposed-fix.diff."""
import sys
import warnings
import param
warnings.simplefilter('ignore')
problems = []


class A(param.Parameterized):
    x = param.Integer(1)


class B(A):
    pass


list(A.param), list(B.param)             # the namespaces have been read
A.y = param.Integer(3)
if A.y != 3:
    problems.append('A.y does not work at all')
for K in (A, B):
    if 'y' not in K.param:
        problems.append(f"{K.__name__}.y == 3 but 'y' is not in {K.__name__}.param")
if A.__dict__['y'].name != 'y':
    problems.append(f"the assigned Parameter is named {A.__dict__['y'].name!r}, not 'y'")


class C(param.Parameterized):
    pass


C.p = param.Integer(1)
C.q = param.Integer(2)
o = C()
try:
    o.p = 10
    if o.q != 2:
        problems.append(f'o.p = 10 changed o.q to {o.q!r} (both Parameters store under the name None)')
    o.param.values()
except Exception as e:
    problems.append(f'instance use of the assigned Parameter raises {type(e).__name__}: {e}')

if problems:
    print('C13 VIOLATED (clean tree):')
    for x in problems:
        print('  -', x)
    sys.exit(1)
print('ok')
