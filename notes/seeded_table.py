"""print the markdown table of seeded changes from seeded/*/meta.json (uses last_run when present)"""
import glob, json, os, collections
rows = collections.OrderedDict()
for d in sorted(glob.glob('/verif/seeded/*')):
    mp = d + '/meta.json'
    if not os.path.exists(mp):
        continue
    m = json.load(open(mp))
    name = os.path.basename(d); pid = name.split('-')[0]; rnd = {'rt': 1, 'r2t': 2, 'r3t': 3, 'r4t': 4, 'r5t': 5, 'r6t': 6}[name.split('-')[1].rstrip('0123456789')]
    lr = m.get('last_run')
    if str(m.get('current_result', '')).startswith('obsolete') or (isinstance(lr, str) and 'no longer applies' in lr):
        lr = 'obsolete (the lines it edits were rewritten by a later repair that removes the defect it re-introduced)'
    own = lr.get(pid) if isinstance(lr, dict) else (lr or m.get('current_result') or m.get('first_result'))
    other = [k for k, v in lr.items() if k != pid and str(v).startswith('caught')] if isinstance(lr, dict) else []
    rows.setdefault(pid, []).append((name, rnd, str(m.get('first_result', '?')), str(own), other, (m.get('summary') or '')[:90]))
print('| property | changes (rounds) | caught now: counterexample / no-failing-input-found | caught only by another check | not caught | first missed (then strengthened) |')
print('|---|---|---|---|---|---|')
tot = collections.Counter()
for pid, l in rows.items():
    cex = [n for n, *_r in l if 'counterexample' in _r[2]]
    nof = [n for n, *_r in l if 'no-failing' in _r[2]]
    oth = [f"{n} ({','.join(_r[3])})" for n, *_r in l if not _r[2].startswith('caught') and _r[3]]
    mis = [f"{n}: {_r[2][:60]}" for n, *_r in l if not _r[2].startswith('caught') and not _r[3]]
    fm = [n for n, *_r in l if 'miss' in _r[1].lower()]
    tot.update(cex=len(cex), nof=len(nof), oth=len(oth), mis=len(mis), all=len(l))
    rounds = '+'.join(str(sum(1 for x in l if x[1] == r)) for r in (1, 2, 3, 4, 5, 6) if any(x[1] == r for x in l))
    print(f"| {pid} | {len(l)} ({rounds}) | {len(cex)} / {len(nof)} | {', '.join(oth) or '—'} | {', '.join(mis) or '—'} | {len(fm)} |")
print(); print(dict(tot))
