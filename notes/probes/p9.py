import param, warnings
warnings.simplefilter('ignore')
from param import rx
class P(param.Parameterized):
    x = param.Number(1); y = param.Number(2); c = param.Boolean(True)
p = P()
w = p.param.c.rx.where(p.param.x, p.param.y)
wr = rx(w)
e = rx(100) + wr
print('e', e.rx.value)
p.x = 5
print('after x=5 e', e.rx.value, 'expect 105; wr', wr.rx.value)
# where on rx condition with rx branches
c = rx(True); x = rx(1); y = rx(2)
w2 = c.rx.where(x, y)
w2r = rx(w2); e2 = rx(100) + w2r; d2 = w2r * 2
seen=[]; w2r.rx.watch(seen.append)
print(w2r.rx.value, e2.rx.value, d2.rx.value)
x.rx.value = 10
print('after x=10', w2r.rx.value, e2.rx.value, d2.rx.value, 'expect 10 110 20', seen)
c.rx.value = False
print('after c=F', w2r.rx.value, e2.rx.value, d2.rx.value, 'expect 2 102 4', seen)
y.rx.value = 20
print('after y=20', w2r.rx.value, e2.rx.value, d2.rx.value, 'expect 20 120 40', seen)
# watch on simple expr
a = rx(1); b = a + 1; seen2=[]; b.rx.watch(seen2.append)
a.rx.value = 2; a.rx.value = 2; a.rx.value = 3
print('seen2', seen2, 'expect [3,4]')
# and_/or_/not_/bool/len/is_/map
l = rx([1,2,3])
print(l.rx.len().rx.value, l.rx.map(lambda v: v*2).rx.value, a.rx.and_(0).rx.value, a.rx.or_(0).rx.value, a.rx.not_().rx.value, a.rx.is_(None).rx.value, a.rx.is_not(None).rx.value, a.rx.bool().rx.value)
# indexing / attr / method
s = rx('hello'); print(s.upper().rx.value, s[1:3].rx.value, s.rx.len().rx.value)
s.rx.value = 'world'; print(s.upper().rx.value)
u = s.upper(); print(u.rx.value); s.rx.value='abc'; print(u.rx.value, 'expect ABC')
