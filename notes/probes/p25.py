import param, warnings
warnings.simplefilter('ignore')
P = param.Parameterized
def mk(name, bases, **kw): return type(name, bases, kw)
def t(label, f):
    try: print(label, '->', repr(f()))
    except Exception as e: print(label, 'RAISES', type(e).__name__, str(e)[:110].replace('\n',' '))
A = mk('A',(P,), x=param.Number(7))
t('child bounds only, parent default ok', lambda: mk('B',(A,), x=param.Number(bounds=(6,10))))
# Tuple length inheritance
T0 = mk('T0',(P,), x=param.Tuple((1,2,3)))
t('Tuple child no default inherits len', lambda: (lambda K:(K.param.x.default, K.param.x.length))(mk('T1',(T0,), x=param.Tuple(doc='d'))))
t('Tuple child new default diff len', lambda: (lambda K:(K.param.x.default, K.param.x.length))(mk('T2',(T0,), x=param.Tuple((1,2)))))
# Selector
S0 = mk('S0',(P,), x=param.Selector(objects=[1,2,3], default=2))
t('Selector child default only', lambda: (lambda K:(K.param.x.default, list(K.param.x.objects), K.param.x.check_on_set))(mk('S1',(S0,), x=param.Selector(default=3))))
t('Selector child bad default', lambda: (lambda K:(K.param.x.default, list(K.param.x.objects)))(mk('S2',(S0,), x=param.Selector(default=9))))
t('Selector child objects only', lambda: (lambda K:(K.param.x.default, list(K.param.x.objects)))(mk('S3',(S0,), x=param.Selector(objects=[7,8]))))
# String regex
R0 = mk('R0',(P,), x=param.String('ab', regex='^a'))
t('String child default violates inherited regex', lambda: mk('R1',(R0,), x=param.String('zz')))
t('String child regex violates inherited default', lambda: mk('R2',(R0,), x=param.String(regex='^z')))
# List item type
L0 = mk('L0',(P,), x=param.List([1], item_type=int))
t('List child default bad item', lambda: mk('L1',(L0,), x=param.List(['a'])))
# identity trap: same value objects
N0 = mk('N0',(P,), x=param.Number(5, bounds=(0,10)))
t('child same default & tighter bounds', lambda: mk('N1',(N0,), x=param.Number(5, bounds=(6,10))))
t('inclusive change only', lambda: mk('N2',(mk('N20',(P,), x=param.Number(10, bounds=(0,10))),), x=param.Number(inclusive_bounds=(True,False))))
# three-level, middle skips
M0 = mk('M0',(P,), x=param.Number(5, bounds=(0,10)))
M1 = mk('M1',(M0,))
t('grandchild conflicts', lambda: mk('M2',(M1,), x=param.Number(11)))
# constant/readonly inherit
C0 = mk('C0',(P,), x=param.Number(1, constant=True, readonly=False))
C1 = mk('C1',(C0,), x=param.Number(2))
print('constant inherited', C1.param.x.constant, C1.param.x.readonly, C1.param.x.instantiate)
