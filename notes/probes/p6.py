import param, warnings
warnings.simplefilter('ignore')
log=[]
class A(param.Parameterized):
    p = param.Number(default=0, bounds=(0,10))
    q = param.Number(default=0)
    @param.depends('p', watch=True)
    def m(self): log.append('A.m')
    @param.depends('m', 'q', watch=True)
    def n(self): log.append('A.n')
    @param.depends('p:bounds', watch=True)
    def bb(self): log.append('A.bb')
class B(A):
    @param.depends('p', 'q', watch=True)
    def m(self): log.append('B.m')
class C(A):
    def m(self): log.append('C.m(undecorated)')
class D(B, C):
    pass
class E(A):
    @param.depends('q', watch=True, on_init=True)
    def m(self): log.append('E.m')
for K in (A,B,C,D,E):
    log.clear(); o = K(); init=list(log); log.clear()
    o.p = 1; sp=list(log); log.clear()
    o.q = 1; sq=list(log); log.clear()
    o.param.update(p=2,q=2); su=list(log); log.clear()
    o.param.p.bounds=(0,20); sb=list(log); log.clear()
    print(K.__name__, 'init',init,'p',sp,'q',sq,'upd',su,'bounds',sb)
    print('   deps', [(d[0]) for d in K.param._depends['watch']])
for K in (A,B,C,E):
    o=K()
    print(K.__name__, 'n deps (inst):', [(d.name,d.what) for d in o.param.method_dependencies('n')], ' m deps:', [(d.name,d.what) for d in o.param.method_dependencies('m')])
