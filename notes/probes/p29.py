import param, warnings
warnings.simplefilter('ignore')
log=[]
class A(param.Parameterized):
    p = param.Number(0); r = param.Number(0)
    @param.depends('p', watch=True)
    def m(self): log.append('m')
    @param.depends('m', watch=True)
    def n(self): log.append('n')
class F(A):
    @param.depends('r', watch=True)
    def m(self): log.append('F.m')
f = F()
f.r = 1; print('r changed (n should fire via m):', log); log.clear()
f.p = 1; print('p changed (n should NOT fire):', log)
print([ (d.name) for d in f.param.method_dependencies('n')])
