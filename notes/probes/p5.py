import param, warnings
warnings.simplefilter('ignore')
log=[]
class Sub(param.Parameterized):
    x = param.Number(default=0)
    y = param.Number(default=0)
class Mid(param.Parameterized):
    b = param.ClassSelector(class_=Sub, default=None, allow_None=True)
class Top(param.Parameterized):
    a = param.ClassSelector(class_=Sub, default=None, allow_None=True)
    @param.depends('a.x', 'a.y', watch=True)
    def m(self): log.append(('m', self.a.x if self.a else None, self.a.y if self.a else None))
t = Top()
s1 = Sub(x=1,y=1); s2 = Sub(x=1,y=2); s3=Sub(x=5,y=2)
t.a = s1; print('attach s1 (from None)', log); log.clear()
s1.x = 2; print('leaf set', log); log.clear()
t.a = s2; print('replace s1(x=2,y=1)->s2(x=1,y=2) expect 1 call', log); log.clear()
s1.x = 9; print('detached leaf set expect none', log); log.clear()
print('s1 watchers', {k:{kk:len(vv) for kk,vv in v.items()} for k,v in s1._param__private.watchers.items()})
t.a = s3; print('replace s2(1,2)->s3(5,2): y same, x differs expect 1 call', log); log.clear()
s4 = Sub(x=5,y=7)
t.a = s4; print('replace s3(5,2)->s4(5,7): x same, y differs expect 1 call', log); log.clear()
s5 = Sub(x=5,y=7)
t.a = s5; print('replace equal -> expect none', log); log.clear()
with param.parameterized.batch_call_watchers(s5):
    s5.x=1; s5.y=2
print('batch both leaves expect 1', log); log.clear()
t.a = None; print('detach to None', log); log.clear()
