import param, warnings
warnings.simplefilter('ignore')
class A(param.Parameterized):
    s = param.Selector(objects=[1,2], check_on_set=False)
    ls = param.ListSelector(default=[1], objects=[1,2], check_on_set=False)
a = A(s=99)
print('ctor kwarg leak into class objects?', A.param.s.objects, A().param.s.objects)
b = A(); b.s = 77
print('instance set leak?', A.param.s.objects, b.param.s.objects)
c = A(ls=[1,55]); print('ListSelector ctor leak?', A.param.ls.objects)
# per-instance param created before init? constant param
class B(param.Parameterized):
    n = param.Number(1, bounds=(0,10))
    def __init__(self, **p):
        self.n = 5              # set before super().__init__
        super().__init__(**p)
b1 = B(); print('set-before-super', b1.n, B.n)
# class-level watchers leak to instance param copy?
log=[]
A.param.watch(lambda e: log.append(('clsw', e.new)), 's')
x = A(); x.s = 2; A.s = 1
print('class watcher', log)
