import param, warnings
warnings.simplefilter('ignore')
class P(param.Parameterized):
    a = param.Number(default=0, bounds=(0,10))
    b = param.Number(default=0, bounds=(0,10))
    e = param.Event()
def mk():
    p = P(); log=[]
    p.param.watch(lambda *ev: log.append([(x.name,x.old,x.new,x.type) for x in ev]), ['a','b'])
    return p, log
# 1. update fails half-way
p, log = mk()
try: p.param.update(a=1, b=99)
except Exception as e: print('raised', e)
print('after failed update: a,b', p.a, p.b, 'log', log, 'BATCH', p.param._BATCH_WATCH, 'events', len(p.param._events))
p.b = 3
print('after p.b=3 log', log)
# 2. update fails inside outer batch
p, log = mk()
with param.parameterized.batch_call_watchers(p):
    try: p.param.update(a=1, b=99)
    except Exception as e: pass
    print('in batch BATCH flag', p.param._BATCH_WATCH)
    p.b = 4
    print('log inside batch (should be empty)', log)
print('log after', log)
# 3. trigger with raising watcher
p, log = mk()
def boom(*ev): raise RuntimeError('boom')
w = p.param.watch(boom, ['a'], precedence=1)
try: p.param.trigger('a')
except RuntimeError: pass
print('TRIGGER flag after failing trigger', p.param._TRIGGER, 'BATCH', p.param._BATCH_WATCH)
p.param.unwatch(w)
log.clear()
p.a = p.a  # same value; onlychanged watcher should be skipped
print('same-value set after failed trigger, log', log)
# 4. watcher raising during set with queued events
p, log = mk()
def q(*ev): p.b = 5
p.param.watch(q, ['a'], queued=True, precedence=1)
w = p.param.watch(boom, ['a'], precedence=2)
try: p.a = 2
except RuntimeError: pass
print('after raise: events queued', [(e.name,e.new) for e in p.param._events], 'log', log)
p.param.unwatch(w)
