import param, warnings
warnings.simplefilter('ignore')
class A(param.Parameterized):
    s = param.Selector(objects=[1,2,3])
    d = param.Selector(objects={'a':1,'b':2})
    l = param.List([1,2])                # instantiate True
    m = param.Parameter(default=[1,2])   # instantiate False -> shared
    n = param.Number(1, bounds=(0,10))
    k = param.List([7], constant=True, instantiate=False)
    ls = param.ListSelector(default=[1], objects=[1,2,3])
class B(A): pass
a1=A(); a2=A(); b=B()
a1.param.s.objects.append(4); print('inst objects append leak?', A.param.s.objects, a2.param.s.objects, B.param.s.objects)
a1.param.d.objects['c']=3; print('dict objects leak?', A.param.d.objects, a2.param.d.objects, A.param.d.names, a1.param.d.names)
a1.param.n.bounds=(0,100); print('bounds leak?', A.param.n.bounds, a2.param.n.bounds)
a1.l.append(3); print('instantiate list leak?', A.l, a2.l)
a1.m.append(3); print('shared by identity', A.m is a1.m is a2.m, A.m)
A.n = 5; print('class default follows', a1.n, a2.n, b.n)
a1.n = 2; A.n = 6; print('own value kept', a1.n, a2.n)
old = a1.k; A.k = [8]; print('constant keeps ctor object', a1.k is old, a1.k, A().k)
# subclass class-level set then mutate subclass param attr
B.s = 2
B.param.s.objects.append(99); print('subclass param objects leak to parent?', A.param.s.objects, B.param.s.objects)
# instance created before/after class-level param attr change
a3 = A(); A.param.n.bounds = (0,50); print('inst w/o copy sees class bounds', a3.param.n.bounds, 'a1 (had copy)', a1.param.n.bounds)
# value validation uses which bounds?
try: a3.n = 40; print('a3.n=40 ok')
except Exception as e: print('a3.n=40', e)
a4 = A()
try: a4.n = 40; print('a4.n=40 ok')
except Exception as e: print('a4.n=40', e)
# ListSelector default shared?
a1.ls.append(2); print('ListSelector default leak', A.ls, a2.ls)
# per_instance False
class P(param.Parameterized):
    q = param.Number(1, bounds=(0,1), per_instance=False)
p1=P(); p2=P(); p1.param.q.bounds=(0,5); print('per_instance=False shared', P.param.q.bounds, p2.param.q.bounds)
