import param, warnings
warnings.simplefilter('ignore')
class S(param.Parameterized):
    v = param.Parameter(default=1)
class T(param.Parameterized):
    n = param.Number(default=0.5, bounds=(0,1), allow_refs=True)
    m = param.Number(default=0.5, allow_refs=True)
s = S(v=0.3); s2 = S(v=5)
t = T(n=s.param.v)
log=[]
t.param.watch(lambda *e: log.append([(x.name,x.old,x.new) for x in e]), ['n','m'], onlychanged=False)
print('refs before', dict(t._param__private.refs), [w for _,w in t._param__private.ref_watchers])
try:
    t.n = s2.param.v   # invalid-valued ref (5 out of bounds)
except Exception as e:
    print('raised', type(e).__name__, e)
print('n after', t.n, 'refs after', {k: (v.owner.name, v.name) for k,v in t._param__private.refs.items()})
print('s watchers', s._param__private.watchers, )
print('s2 watchers', s2._param__private.watchers)
s.v = 0.7
print('after s.v=0.7: t.n', t.n)
s2.v = 0.9
print('after s2.v=0.9: t.n', t.n, log)
