import param, warnings
warnings.simplefilter('ignore')
class P(param.Parameterized):
    a = param.Number(0); b = param.Number(0)
p=P(); log=[]
p.param.watch(lambda *e: log.append(('w1',[(x.name,x.old,x.new,x.type) for x in e])), ['a','b'])            # onlychanged
p.param.watch(lambda *e: log.append(('w2',[(x.name,x.old,x.new,x.type) for x in e])), ['b'], onlychanged=False)
with param.parameterized.batch_call_watchers(p):
    p.a = 1
    p.b = 0      # same value: qualifying for w2 only
print(log)
log.clear()
# repeated assignment to same param, ending equal to start, watcher onlychanged
p2=P(); 
p2.param.watch(lambda *e: log.append(('oc',[(x.name,x.old,x.new,x.type) for x in e])), ['a'])
with param.parameterized.batch_call_watchers(p2):
    p2.a = 5
    p2.a = 5     # second is same-value: not qualifying; the event delivered?
print(log)
