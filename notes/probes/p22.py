import param, warnings
warnings.simplefilter('ignore')
class P(param.Parameterized):
    a = param.Parameter(0); b = param.Parameter(0); c = param.Parameter(0)
tr=[]
def mk(tag, p, then=None):
    def cb(*evs):
        tr.append((tag, [(e.name,e.old,e.new,e.type) for e in evs], (p.a,p.b,p.c)))
        if then: then()
        tr.append((tag,'exit'))
    return cb
p = P()
p.param.watch(mk('w_lo', p), ['a'], precedence=5)
p.param.watch(mk('w_nest', p, lambda: setattr(p,'b',p.a*10)), ['a'], precedence=1)
p.param.watch(mk('w_b', p), ['b'], precedence=0)
p.param.watch(mk('w_q', p, lambda: setattr(p,'c',p.a+100)), ['a'], precedence=2, queued=True)
p.param.watch(mk('w_c', p), ['c'])
p.param.watch(mk('w_same1', p), ['a'], precedence=1)
p.a = 1
for x in tr: print(x)
print('---- same value, onlychanged=False + True/1/1.0')
tr.clear(); q = P(a=1)
q.param.watch(mk('oc', q), ['a'])
q.param.watch(mk('all', q), ['a'], onlychanged=False)
q.a = True; q.a = 1.0; q.a = float('nan'); q.a = float('nan'); q.a = [1,(2,)]; q.a=[1,(2,)]
for x in tr: print(x)
print('---- class-level')
tr.clear()
P.param.watch(mk('cls', P), ['a']); P.a = 7
r = P(); r.a = 8
for x in tr: print(x)
