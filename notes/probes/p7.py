import param, warnings
warnings.simplefilter('ignore')
class S(param.Parameterized):
    v = param.Parameter(default=1)
    w = param.Parameter(default=10)
class T(param.Parameterized):
    a = param.Parameter(default=0, allow_refs=True)
    b = param.Parameter(default=0, allow_refs=True)
    c = param.Parameter(default=0, allow_refs=True, nested_refs=True)
def wcount(o): return {k: len(v.get('value',[])) for k,v in o._param__private.watchers.items()}
s=S(); s2=S(v=100)
# link at construction vs later, with bind fn depending on method etc
f = param.bind(lambda v,w: v+w, s.param.v, s.param.w)
t = T(a=s.param.v)
t.b = f
print('a,b', t.a, t.b)
s.v = 2; print('after s.v=2', t.a, t.b, 'expect 2 12')
s.w = 20; print('after s.w=20', t.a, t.b, 'expect 2 22')
# rx ref set later
r = param.rx(5); e = r*2
t.c = {'k': e, 'j': [s.param.v]}
print('c', t.c); r.rx.value = 6; print('c after r=6', t.c, 'expect k=12'); s.v=3; print('c after s.v=3', t.c, 'a', t.a, 'b', t.b)
# override a with plain value
t.a = 42; s.v = 4; print('a after override + s.v=4', t.a, 'b', t.b, 'c', t.c, wcount(s))
# relink b to s2
t.b = s2.param.v; s.w=30; print('b after relink & s.w=30', t.b, 'expect 100'); s2.v=101; print('b', t.b, wcount(s), wcount(s2))
# update context
with t.param.update(b=7):
    s2.v = 102; print('in ctx b', t.b)
print('after ctx b', t.b, 'expect 102?'); s2.v=103; print('b', t.b)
# method reference with depends on subobject param
class U(param.Parameterized):
    s = param.ClassSelector(class_=S)
    @param.depends('s.v')
    def meth(self): return self.s.v*2
u = U(s=s)
t2 = T(); t2.a = u.meth
print('t2.a', t2.a); s.v=50; print('after s.v=50 t2.a', t2.a, 'expect 100')
t3 = T(a=u.meth); s.v=60; print('t3.a (ctor)', t3.a, 't2.a', t2.a)
