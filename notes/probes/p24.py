import param, warnings, asyncio
warnings.simplefilter('ignore')
# time contexts
t = param.Time()
t(3)
try:
    with t as t1:
        t1(10)
        with t1 as t2:
            t2 += 5; t2.timestep = 2
            raise RuntimeError
except RuntimeError: pass
print('time after nested failing ctx', t(), t.timestep, t._pushed_state)
# rx through coroutines: latest wins
async def main():
    loop = asyncio.get_running_loop(); futs={}
    async def slow(v):
        f = loop.create_future(); futs[v]=f
        return await f
    r = param.rx(1)
    e = r.rx.pipe(slow)
    seen=[]; e.rx.watch(seen.append)
    print('initial', e.rx.value)
    await asyncio.sleep(0)
    r.rx.value = 2
    print('read2', e.rx.value)
    await asyncio.sleep(0)
    r.rx.value = 3
    print('read3', e.rx.value)
    for _ in range(3): await asyncio.sleep(0)
    print('pending futs', list(futs))
    futs[3].set_result('r3')
    for _ in range(5): await asyncio.sleep(0)
    futs[1].set_result('r1'); futs[2].set_result('r2')
    for _ in range(5): await asyncio.sleep(0)
    print('final', e.rx.value, 'seen', seen)
    for _ in range(5): await asyncio.sleep(0)
    print('final2', e.rx.value, 'pending', [k for k,f in futs.items() if not f.done()])
asyncio.run(main())
# function-form depends
class P(param.Parameterized):
    a = param.Number(0); b = param.Number(0)
p = P(); q = P(); calls=[]
@param.depends(p.param.a, p.param.b, q.param.a, watch=True)
def fn(a, b, qa): calls.append((a,b,qa))
p.a = 1; p.param.update(a=2, b=3); q.a = 5; p.a = 2
print('fn calls', calls)
