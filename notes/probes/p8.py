import param, warnings, operator
warnings.simplefilter('ignore')
from param import rx
def t(label, f):
    try: print(label, '->', repr(f()))
    except Exception as e: print(label, 'RAISES', type(e).__name__, str(e)[:90])
a = rx(2)
t('1<<a', lambda: (1 << a).rx.value)
t('16>>a', lambda: (16 >> a).rx.value)
t('a<<1', lambda: (a << 1).rx.value)
class M:
    def __matmul__(s,o): return 'mm'
    def __rmatmul__(s,o): return 'rmm'
t('M()@a', lambda: (M() @ rx(M())).rx.value)
t('3 in', lambda: a.rx.in_([1,2]).rx.value)
t('divmod(7,a)', lambda: divmod(7,a).rx.value)
t('7//a', lambda: (7//a).rx.value)
t('7-a', lambda: (7-a).rx.value)
t('2**a', lambda: (2**a).rx.value)
# where with parameter branches + derived + watch
class P(param.Parameterized):
    x = param.Number(1); y = param.Number(2); c = param.Boolean(True)
p = P()
w = p.param.c.rx.where(p.param.x, p.param.y)
wr = rx(w) if not isinstance(w, rx) else w
d = wr + 100
seen=[]
wr.rx.watch(lambda v: seen.append(v))
print('where', wr.rx.value, 'd', d.rx.value)
p.x = 5
print('after x=5: where', wr.rx.value, 'd', d.rx.value, 'expect 5,105', 'seen', seen)
p.c = False
print('after c=False: where', wr.rx.value, 'd', d.rx.value, 'expect 2,102', 'seen', seen)
p.y = 7
print('after y=7: where', wr.rx.value, 'd', d.rx.value, 'expect 7,107', 'seen', seen)
# shared root used as arg
r = rx(1)
e = r + r
print('r+r', e.rx.value); r.rx.value = 2; print('r+r after', e.rx.value, 'expect 4')
f = (r*10).rx.pipe(lambda v, k: v+k, r)
print('pipe', f.rx.value); r.rx.value=3; print('pipe after', f.rx.value, 'expect 33')
# error recovery
z = rx(0); q = 10 / z
t('10/0', lambda: q.rx.value)
z.rx.value = 5
t('10/5 after recovery', lambda: q.rx.value)
g = q + 1
z.rx.value = 0
t('g err', lambda: g.rx.value)
z.rx.value = 2
t('g recov', lambda: g.rx.value)
# read-populate cache then update param arg
class Q(param.Parameterized):
    k = param.Number(1)
qq = Q()
h = rx(10) + qq.param.k
print(h.rx.value); qq.k = 5; print(h.rx.value, 'expect 15')
h2 = h * 2
print(h2.rx.value); qq.k = 6; print(h2.rx.value, 'expect 32', h.rx.value)
