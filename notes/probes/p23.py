import param, warnings, json
warnings.simplefilter('ignore')
from param.parameterized import batch_call_watchers, discard_events
def t(label, f):
    try: print(label, '->', repr(f()))
    except Exception as e: print(label, 'RAISES', type(e).__name__, str(e)[:150].replace('\n',' '))
# (1) discard keeps earlier queue
class P(param.Parameterized):
    a = param.Number(0); b = param.Number(0)
p=P(); log=[]
p.param.watch(lambda *e: log.append([(x.name,x.old,x.new) for x in e]), ['a','b'])
with batch_call_watchers(p):
    p.a = 1
    with discard_events(p):
        p.a = 2; p.b = 5
    print('queue after discard', [(e.name,e.new) for e in p.param._events])
print('log', log, 'values', p.a, p.b)
# (4) update ctx with refs restore
class S(param.Parameterized):
    v = param.Parameter(1)
class T(param.Parameterized):
    a = param.Parameter(0, allow_refs=True)
s=S(); tt=T(a=s.param.v)
with tt.param.update(a=99):
    s.v = 2; print('in ctx', tt.a)
print('after ctx', tt.a, 'refs', list(tt._param__private.refs)); s.v=3; print('after s.v=3', tt.a)
# (8) schema edge
t('Selector empty schema', lambda: param.Selector(objects=[]).schema())
class L(param.Parameterized):
    l = param.List([True], item_type=int)
t('list bool serialize', lambda: L.param.serialize_parameters(['l']))
# (3) depth-2 path watchers on detached
log2=[]
class Leaf(param.Parameterized):
    x = param.Number(0)
class Mid(param.Parameterized):
    b = param.ClassSelector(class_=Leaf, default=None, allow_None=True)
class Top(param.Parameterized):
    a = param.ClassSelector(class_=Mid, default=None, allow_None=True)
    @param.depends('a.b.x', watch=True)
    def m(self): log2.append(self.a.b.x if self.a and self.a.b else None)
def wc(o): return {k:{kk:len(vv) for kk,vv in v.items()} for k,v in o._param__private.watchers.items()}
l1=Leaf(x=1); m1=Mid(b=l1); top=Top(a=m1)
l1.x=2; print('leaf set', log2); log2.clear()
l2=Leaf(x=5); m1.b=l2; print('replace leaf', log2, 'l1 watchers', wc(l1)); log2.clear()
m2=Mid(b=Leaf(x=5)); top.a=m2; print('replace mid equal leaf val -> expect none', log2, 'm1 watchers', wc(m1), 'l2', wc(l2)); log2.clear()
l2.x=9; m1.b=Leaf(x=100); print('detached activity expect none', log2); log2.clear()
m2.b.x = 6; print('current leaf set', log2); log2.clear()
m3=Mid(b=Leaf(x=7)); top.a=m3; print('replace mid diff', log2); log2.clear()
m3.b = None; print('detach leaf', log2); log2.clear()
m3.b = Leaf(x=7); print('reattach leaf', log2); log2.clear()
