import param, warnings
warnings.simplefilter('ignore')
class P(param.Parameterized):
    a = param.Parameter(0); b = param.Parameter(0); c = param.Parameter(0)
p=P(); tr=[]
def mk(tag, then=None):
    def cb(*e):
        tr.append(tag+':enter'); 
        if then: then()
        tr.append(tag+':exit')
    return cb
p.param.watch(mk('w_q', lambda: setattr(p,'c',1)), ['a'], queued=True, precedence=1)
p.param.watch(mk('w_n', lambda: setattr(p,'b',1)), ['a'], precedence=2)
p.param.watch(mk('w_last'), ['a'], precedence=3)
p.param.watch(mk('w_b'), ['b']); p.param.watch(mk('w_c'), ['c'])
p.a = 1
print(tr)
