import param, warnings, copy, pickle
warnings.simplefilter('ignore')
log=[]
class Sub(param.Parameterized):
    x = param.Number(0)
class Top(param.Parameterized):
    a = param.ClassSelector(class_=Sub, default=None, allow_None=True)
    n = param.Number(1, bounds=(0,10))
    l = param.List([1])
    @param.depends('a.x', watch=True)
    def m(self): log.append(('m', id(self)==id(ORIG), self.a.x))
    @param.depends('n', watch=True)
    def k(self): log.append(('k', id(self)==id(ORIG), self.n))
def t(label, f):
    try: print(label, '->', repr(f()))
    except Exception as e: print(label, 'RAISES', type(e).__name__, str(e)[:150].replace('\n',' '))
ORIG = Top(a=Sub(x=1))
ORIG.param.n.bounds = (0,100); ORIG.extra = [1,2]
ORIG.n = 50
for name, cp in (('deepcopy', copy.deepcopy), ('pickle', lambda o: pickle.loads(pickle.dumps(o)))):
    log.clear()
    try:
        c = cp(ORIG)
    except Exception as e:
        print(name, 'FAILED', type(e).__name__, str(e)[:200]); continue
    print(name, 'values equal', c.n==ORIG.n, c.a.x==ORIG.a.x, c.a is not ORIG.a, c.param.n.bounds, c.extra, c.extra is not ORIG.extra)
    c.n = 60; print('  copy.n=60 ->', log); log.clear()
    ORIG.n = 51; print('  orig.n=51 ->', log); log.clear()
    c.a.x = 7; print('  copy.a.x=7 ->', log); log.clear()
    ORIG.a.x = 8; print('  orig.a.x=8 ->', log, 'copy.a.x', c.a.x); log.clear()
    c.a = Sub(x=3); print('  copy.a replaced ->', log); log.clear()
    ORIG.a.x = 9; print('  orig.a.x=9 ->', log); log.clear()
    print('  sub watchers orig', {k:{kk:len(vv) for kk,vv in v.items()} for k,v in ORIG.a._param__private.watchers.items()})
