import param, warnings, asyncio
warnings.simplefilter('ignore')
class T(param.Parameterized):
    a = param.Parameter(default=0, allow_refs=True)
    b = param.Parameter(default=0, allow_refs=True)
async def main():
    loop = asyncio.get_running_loop()
    futs = {}
    def mk(name, val):
        f = loop.create_future(); futs[name]=f
        async def co():
            return await f
        co.__name__ = name
        return co
    t = T()
    seen=[]; t.param.watch(lambda e: seen.append((e.name, e.new)), ['a','b'])
    # scenario 1: coroutine pending, then plain assignment, then completion
    t.a = mk('A1', 1)
    await asyncio.sleep(0)   # let task start and suspend
    t.a = 99
    futs['A1'].set_result(1)
    for _ in range(5): await asyncio.sleep(0)
    print('scenario1 final a', t.a, 'expect 99', seen, 'syncing', t._param__private.syncing, 'refs', list(t._param__private.refs))
    # scenario 2: two coroutines, complete in reverse order
    t = T(); seen=[]
    t.a = mk('A1', 1); await asyncio.sleep(0)
    t.a = mk('A2', 2); await asyncio.sleep(0)
    futs['A2'].set_result(2)
    for _ in range(3): await asyncio.sleep(0)
    if not futs['A1'].done(): futs['A1'].set_result(1)
    for _ in range(5): await asyncio.sleep(0)
    print('scenario2 final a', t.a, 'expect 2')
    # scenario 3: interleaved syncing scopes on two params
    t = T()
    t.a = mk('A', 1); t.b = mk('B', 2)
    for _ in range(3): await asyncio.sleep(0)
    futs['A'].set_result(1)
    for _ in range(3): await asyncio.sleep(0)
    futs['B'].set_result(2)
    for _ in range(5): await asyncio.sleep(0)
    print('scenario3 a,b', t.a, t.b, 'syncing after all done', t._param__private.syncing, 'async_refs', t._param__private.async_refs)
    # scenario 4: assign before task starts (no sleep between)
    t = T()
    t.a = mk('A1', 1)
    t.a = mk('A2', 2)
    futs['A1'].set_result(1)
    for _ in range(5): await asyncio.sleep(0)
    futs['A2'].set_result(2)
    for _ in range(5): await asyncio.sleep(0)
    print('scenario4 a', t.a, 'expect 2')
asyncio.run(main())
