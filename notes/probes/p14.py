import param, warnings
warnings.simplefilter('ignore')
def t(label, f):
    try: print(label, '->', repr(f()))
    except Exception as e: print(label, 'RAISES', type(e).__name__, str(e)[:100].replace('\n',' '))
def mk(name, bases, **kw):
    return type(name, bases, kw)
P = param.Parameterized
# diamond
A = mk('A',(P,), x=param.Number(5, bounds=(0,10), doc='A doc', step=1))
B = mk('B',(A,), x=param.Number(bounds=(0,20)))
C = mk('C',(A,), x=param.Number(default=7, doc='C doc'))
D = mk('D',(B,C), x=param.Number(softbounds=(1,2)))
px = D.param.x
print('D.x', px.default, px.bounds, px.doc, px.step, px.softbounds, px.inclusive_bounds, 'expect default 7 (C nearest w/ default? MRO D,B,C,A): B has no default -> C 7; bounds (0,20) from B; doc C doc')
E = mk('E',(A,), y=param.Number(1))  # skip
F = mk('F',(E,), x=param.Number(default=9))
print('F.x', F.param.x.default, F.param.x.bounds, F.param.x.doc)
t('conflict default>bounds', lambda: mk('G',(A,), x=param.Number(default=11)))
t('bounds shrink w/ inherited default', lambda: mk('H',(A,), x=param.Number(bounds=(6,10))))
t('type change Number->Integer w/ float default', lambda: mk('I',(mk('I0',(P,),x=param.Number(5.5)),), x=param.Integer()))
t('type change String None default', lambda: mk('J',(mk('J0',(P,),x=param.Parameter(None)),), x=param.String()).param.x.default)
t('same-type None default allow_None False', lambda: (lambda K: (K.param.x.default, K.param.x.allow_None))(mk('K',(mk('K0',(P,),x=param.String(None)),), x=param.String())))
# instantiate inherited, allow_None recomputed
L0 = mk('L0',(P,), x=param.Parameter(default=[1], instantiate=True))
L = mk('L',(L0,), x=param.Parameter(default=[2]))
print('instantiate inherited', L.param.x.instantiate)
M0 = mk('M0',(P,), x=param.Number(None, allow_None=True))
M = mk('M',(M0,), x=param.Number(3))
M2 = mk('M2',(M0,), x=param.Number(bounds=(0,1)))
print('allow_None', M.param.x.allow_None, M2.param.x.allow_None, M2.param.x.default)
# add_parameter
t('add_parameter conflicting', lambda: A.param.add_parameter('w', param.Number(5, bounds=(0,1))))
N = mk('N',(A,),)
t('add_parameter override on subclass bad default', lambda: N.param.add_parameter('x', param.Number(default=50)))
print('N.x after failed add', N.x, N.param.x.default, type(N.__dict__.get('x')))
# inclusive bounds inherit
O0 = mk("O0",(P,), x=param.Number(0.5, bounds=(0,1), inclusive_bounds=(True,False)))
t('default at excl bound inherited', lambda: mk('O',(O0,), x=param.Number(default=1)))
