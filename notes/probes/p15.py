import param, warnings, datetime as dt, json, math
warnings.simplefilter('ignore')
def t(label, f):
    try: print(label, '->', repr(f()))
    except Exception as e: print(label, 'RAISES', type(e).__name__, str(e)[:100].replace('\n',' '))
class A(param.Parameterized):
    i = param.Integer(1)
    n = param.Number(1.5, allow_None=True)
    s = param.String('x', allow_None=True)
    b = param.Boolean(True, allow_None=True)
    tu = param.Tuple((1,'a',None))
    nt = param.NumericTuple((1,2.5))
    xy = param.XYCoordinates((0.0,1.0))
    r = param.Range((0,1), allow_None=True)
    d = param.Date(dt.datetime(2020,1,2,3,4,5,678), allow_None=True)
    cd = param.CalendarDate(dt.date(2020,1,2), allow_None=True)
    dr = param.DateRange((dt.datetime(2020,1,1), dt.datetime(2020,1,2,0,0,0,5)), allow_None=True)
    cdr = param.CalendarDateRange((dt.date(2020,1,1), dt.date(2020,1,2)), allow_None=True)
    l = param.List([1,'a',[2]])
    di = param.Dict({'a':[1,2]})
    sel = param.Selector(objects=[1,'a',None])
    sel2 = param.Selector(objects={'k':1.5,'j':2})
    ls = param.ListSelector(default=[1], objects=[1,2,3])
    c = param.Color('#ffffff', allow_None=True)
def rt(a, subset=None):
    s = a.param.serialize_parameters(subset=subset)
    json.loads(s)
    kw = type(a).param.deserialize_parameters(s, subset=subset)
    b = type(a)(**kw)
    bad = {k:(getattr(a,k), getattr(b,k)) for k in kw if not (getattr(a,k)==getattr(b,k) and type(getattr(a,k)) is type(getattr(b,k)))}
    return bad
a = A()
t('default roundtrip diffs', lambda: rt(a))
a.d = dt.datetime(999,1,1)
t('year<1000 Date', lambda: rt(a, ['d']))
a.d = dt.datetime(2020,1,1)
a.dr = (dt.date(999,1,1), dt.date(2020,1,2))
t('year<1000 DateRange date', lambda: rt(a, ['dr']))
a.dr = (dt.date(2020,1,1), dt.date(2020,1,2))
t('DateRange dates', lambda: rt(a, ['dr']))
a.n = 1e308*10
t('inf number std json?', lambda: a.param.serialize_parameters(['n']))
a.n = None; a.s=None; a.b=None; a.r=None; a.d=None; a.cd=None; a.dr=None; a.cdr=None; a.c=None
t('Nones', lambda: rt(a))
a.tu = ((1,2),'a',None)
t('nested tuple in Tuple', lambda: rt(a, ['tu']))
a.l = [(1,2)]
t('tuple in List', lambda: rt(a, ['l']))
a.i = True
t('bool in Integer', lambda: rt(a, ['i']))
a.n = 3
t('int in Number', lambda: rt(a, ['n']))
a.sel = None
t('selector None', lambda: rt(a, ['sel']))
a.r = (0.5, 1)
t('range mixed', lambda: rt(a, ['r']))
t('serialize_value/deserialize_value d', lambda: (setattr(a,'d',dt.datetime(2021,5,6,7,8,9,123456)), A.param.deserialize_value('d', a.param.serialize_value('d')))[1])
t('class-level', lambda: A.param.deserialize_parameters(A.param.serialize_parameters())['tu'])
t('schema', lambda: json.dumps(A.param.schema())[:300])
