import param, numbergen as ng, warnings
warnings.simplefilter('ignore')
import logging; logging.disable(logging.CRITICAL)
param.Dynamic.time_dependent = True
tf = param.Dynamic.time_fn
class A(param.Parameterized):
    v = param.Number(default=ng.UniformRandom(name='g', seed=3, time_dependent=True), bounds=(0,1))
    w = param.Number(default=0.5)
a = A(); b = A()
tab={}
def rd(o, t_):
    tf(t_); return o.v
seq = [0,1,2,1,0,5,0,-1,3,-1, 2]
vals = [(t_, rd(a,t_)) for t_ in seq]
print(vals)
ok=True
for t_,v in vals:
    if t_ in tab and tab[t_]!=v: ok=False; print('MISMATCH at', t_, tab[t_], v)
    tab[t_]=v
print('pure?', ok)
print('other instance same?', all(rd(b,t_)==tab[t_] for t_ in [0,1,2,5,3]))
# first read at time -1 on fresh instance
c = A(); tf(-1)
try: print('fresh read at -1:', c.v)
except Exception as e: print('fresh read at -1 raises', type(e).__name__, e)
tf(4); x = a.v; print('inspect does not advance', a.param.inspect_value('v')==x, a.v==x, a.param.inspect_value('v')==x)
tf(0)
with tf as t2:
    t2(10); y=a.v
print('time restored', tf(), )
a.param._state_push(); tf(7); z=a.v; a.param._state_pop(); print('pop restores cache', a.param.inspect_value('v')==tab[0] or a.param.inspect_value('v'))
param.Dynamic.time_dependent = False
