import param, warnings
warnings.simplefilter('ignore')
class S(param.Parameterized):
    v = param.Parameter(default=0.3)
class T(param.Parameterized):
    n = param.Number(default=0.5, bounds=(0,1), allow_refs=True)
s = S(); t = T(n=s.param.v)
try: t.n = 5
except ValueError as e: print('rejected plain value')
print('refs after', list(t._param__private.refs))
s.v = 0.7; print('t.n after s.v=0.7 ->', t.n, '(expect 0.7 if link intact)')
