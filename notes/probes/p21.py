import param, warnings
warnings.simplefilter('ignore')
log=[]
class A(param.Parameterized):
    p = param.Number(0, bounds=(0,10))
    q = param.Number(0, bounds=(0,10))
    @param.depends('p', 'q:bounds', watch=True)
    def m(self): log.append('m')
    @param.depends('p', 'q', watch=True)
    def n(self): log.append('n')
a = A()
with param.parameterized.batch_call_watchers(a):
    a.p = 1
    a.param.q.bounds = (0, 20)
    a.q = 3
print('batch value+slot change:', log)
log.clear()
a.param.update(p=2, q=4); print('update p,q', log)
