import param, warnings, inspect
warnings.simplefilter('ignore')
def t(label, f):
    try: print(label, '->', repr(f()))
    except Exception as e: print(label, 'RAISES', type(e).__name__, str(e)[:120].replace('\n',' '))
# C13: cache
class A(param.Parameterized):
    x = param.Number(1, bounds=(0,10))
class B(A): pass
class C(B): pass
print('read C.param', list(C.param), C.param['x'] is A.__dict__['x'])
B.x = 5   # class-level set on subclass: copies param into B
print('B.x', B.x, 'A.x', A.x, 'C.x', C.x)
print('B.param[x] is B.__dict__[x]', B.param['x'] is B.__dict__['x'], 'default', B.param['x'].default)
print('C.param[x] is static attr', C.param['x'] is inspect.getattr_static(C,'x'), 'C.param.x.default', C.param['x'].default, 'C.x', C.x)
c = C(); print('c.x', c.x, 'c.param.values', c.param.values()['x'], 'c.param.x.default', c.param.x.default)
# add_parameter on ancestor after subclass namespace read
A.param.add_parameter('z', param.Number(3))
print('C has z attr', C.z, "'z' in C.param", 'z' in C.param, "'z' in A.param", 'z' in A.param, 'B', 'z' in B.param)
t('C.param.z', lambda: C.param['z'])
t('c.param.values z', lambda: 'z' in C().param.values())
# C14
class K(param.Parameterized):
    c = param.Number(1, constant=True)
    r = param.Number(2, readonly=True)
    l = param.List([1], constant=True)
class K2(K): pass
k = K2()
t('k.c=2', lambda: setattr(k,'c',2))
t('k.c=same', lambda: setattr(k,'c',k.c))
t('K2.c=5 class-level', lambda: setattr(K2,'c',5)); print('k.c after class set', k.c, 'K.c', K.c)
t('K2.r=5', lambda: setattr(K2,'r',5))
t('k.r=5', lambda: setattr(k,'r',5))
t('update c', lambda: k.param.update(c=7)); print(k.c)
from param.parameterized import edit_constant
try:
    with edit_constant(k):
        k.c = 9
        raise RuntimeError('x')
except RuntimeError: pass
print('after failing edit_constant: k.c', k.c, 'inst const', k.param.c.constant, 'cls const', K2.param.c.constant, K.param.c.constant)
t('k.c=10 after', lambda: setattr(k,'c',10))
with edit_constant(k):
    with edit_constant(k):
        k.c = 11
    t('inner exit then set', lambda: setattr(k,'c',12))
print('k.c', k.c, k.param.c.constant, K2.param.c.constant)
t('name const', lambda: setattr(k,'name','zz'))
k2 = K2(); 
t('k2 before param access: set c', lambda: setattr(k2,'c',3))
K2.param.c.constant = False
t('cls const False then inst set', lambda: setattr(k2,'c',3)); print(k2.c)
