import param, warnings
warnings.simplefilter('ignore')
from param.parameterized import edit_constant
class K(param.Parameterized):
    c = param.Number(1)
k = K(); k.param.c.constant = True
print('before', K.param.c.constant, k.param.c.constant)
with edit_constant(k): k.c = 2
print('after', K.param.c.constant, k.param.c.constant)
k2 = K()
try:
    k2.c = 5; print('k2.c set ok', k2.c)
except Exception as e: print('k2 set raises', e)
# reverse: class constant True, instance copy says False
class J(param.Parameterized):
    c = param.Number(1, constant=True)
j = J(); j.param.c.constant = False
with edit_constant(j): j.c = 3
print('J after', J.param.c.constant, j.param.c.constant)
