# P2: an async reference WITH a dependency is re-scheduled by _sync_refs while its task is running
import param, warnings, asyncio
warnings.simplefilter('ignore')
class S(param.Parameterized):
    x = param.Integer(0)
class T(param.Parameterized):
    a = param.Parameter(default=0, allow_refs=True)
async def main():
    loop = asyncio.get_running_loop(); futs=[]
    s = S()
    @param.depends(s.param.x)
    async def f(x):
        fu = loop.create_future(); futs.append((x, fu)); return await fu
    async def tick():
        for _ in range(10): await asyncio.sleep(0)
    t = T(); t.a = f; await tick()
    s.x = 1; await tick()          # re-scheduled: second task cancels the first ... and (unpatched) does not register
    print('registered after re-run:', list(t._param__private.async_refs), 'started evaluations', [x for x,_ in futs])
    t.a = 99                        # plain assignment must cancel the second task
    await tick()
    for x, fu in futs:
        if not fu.done(): fu.set_result(100 + x)
    await tick()
    print('a =', t.a, '(expected 99)')
asyncio.run(main())
