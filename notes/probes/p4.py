import param, warnings
warnings.simplefilter('ignore')
from param.parameterized import batch_call_watchers, discard_events
class P(param.Parameterized):
    a = param.Number(default=0)
    b = param.Number(default=0)
    e = param.Event()
def mk():
    p = P(); log=[]
    p.param.watch(lambda *ev: log.append(('w1',[(x.name,x.old,x.new,x.type) for x in ev])), ['a','b'])
    p.param.watch(lambda *ev: log.append(('w2',[(x.name,x.old,x.new,x.type) for x in ev])), ['a'], onlychanged=False, precedence=1)
    p.param.watch(lambda *ev: log.append(('we',[(x.name,x.old,x.new,x.type) for x in ev], p.e)), ['e'])
    return p, log
p, log = mk()
with batch_call_watchers(p):
    p.a = 1
    with discard_events(p):
        p.b = 2
    p.a = 3
    print('inside', log)
print('1 discard inside batch:', log)
p, log = mk()
with batch_call_watchers(p):
    p.a = 1
    p.param.trigger('b')
    print('inside', log)
    p.a = 2
print('2 trigger inside batch:', log)
p, log = mk()
with discard_events(p):
    p.a = 1
    with batch_call_watchers(p):
        p.a = 2
print('3 batch in discard:', log, p.a)
p, log = mk()
p.param.trigger('e')
print('4 trigger event:', log, p.e)
p, log = mk()
with batch_call_watchers(p):
    p.e = True
    print('e inside batch', p.e)
print('5 event in batch:', log, p.e)
p, log = mk()
p.param.update(e=True, a=4)
print('6 update with event:', log, p.e)
p, log = mk()
with p.param.update(a=5, b=6):
    print('in ctx', p.a, p.b)
print('7 update ctx:', log, p.a, p.b)
p,log = mk()
with batch_call_watchers(p):
    p.a = 1
    p.a = 0
print('8 set then back: ', log)
p,log = mk()
p.param.trigger('a','b')
print('9 trigger two', log)
