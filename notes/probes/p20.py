import param, warnings, math
warnings.simplefilter('ignore')
import __main__
def t(label, f):
    try: print(label, '->', repr(f()))
    except Exception as e: print(label, 'RAISES', type(e).__name__, str(e)[:150].replace('\n',' '))
class In(param.Parameterized):
    q = param.Number(0)
class A(param.Parameterized):
    n = param.Number(1.0)
    s = param.String('x')
    l = param.List([])
    tu = param.Tuple((1,2))
    d = param.Dict({})
    sub = param.ClassSelector(class_=In, default=None, allow_None=True)
    p = param.Parameter(None)
class B(A):
    def __init__(self, n, s='zz', **params):
        super().__init__(n=n, s=s, **params)
def rt(o, fn):
    txt = fn(o)
    o2 = eval(txt, vars(__main__) | {'__main__': __main__, 'inf': math.inf, 'nan': math.nan})
    diffs = {k:(v, o2.param.values()[k]) for k,v in o.param.values().items() if k!='name' and not (v == o2.param.values()[k] or (isinstance(v,param.Parameterized) and v.param.values().items()-{'name':0}.items() ))}
    return txt, diffs
pp = lambda o: o.param.pprint()
sr = lambda o: param.script_repr(o, show_imports=False)
t('default', lambda: rt(A(), pp))
t('strings esc', lambda: rt(A(s='a"b\'c\n\\'), pp))
t('neg inf', lambda: rt(A(n=-math.inf), pp))
t('nan', lambda: rt(A(n=math.nan), pp)[0])
t('containers', lambda: rt(A(l=[1,'a',(2,),[]], tu=((), 'x'), d={'k':[1],'j':{'a':()}}), pp))
t('single tuple', lambda: rt(A(p=(1,)), pp))
t('nested', lambda: rt(A(sub=In(q=3)), pp))
t('named', lambda: rt(A(name='foo', n=2), pp))
t('B pos', lambda: rt(B(5), pp))
t('B kw', lambda: rt(B(5, s='q', l=[1]), pp))
t('B kw default-eq', lambda: rt(B(5, s='zz'), pp))
t('script_repr', lambda: rt(A(n=3, sub=In(q=1), l=[In(q=2)]), sr))
t('set in param', lambda: rt(A(p={1,2}), pp))
t('bytes', lambda: rt(A(p=b'ab'), pp))
t('name auto-like', lambda: rt(A(name='A00012'), pp))
t('list with tuple1', lambda: rt(A(l=[(1,)]), pp))
