"""C09 demo: `x in <rx expression>`.

reactive.py defines `__contains_` (one underscore short, name-mangled to `_rx__contains_`), so
`x in expr` falls back to `__iter__` + `__eq__` + `__bool__`: `rx.__iter__` yields rx items,
`item == x` is an rx, `bool(rx)` is always True -> the answer is True for every non-empty
iterable value, whatever x is.  Renaming the method to `__contains__` does not help (Python
coerces the returned rx to bool: always True, even for an empty value); the proposed fix makes it
raise TypeError like `len(<rx_obj>)` does (applied to /repo as c09ac3d; notes/c09-contains-proposed-fix.diff).
Exit 1 = the silent wrong answer is present.
"""
import sys, warnings
warnings.simplefilter('ignore')
import param
from param import rx

bad = []
for value, x in (([1, 2, 3], 9), ('abc', 'z'), ([0], None)):
    try:
        got = x in rx(value)
    except TypeError:
        continue                      # refusing loudly is fine
    if got != (x in value):
        bad.append(f'{x!r} in rx({value!r}) -> {got!r}, plain Python: {x in value!r}')
if bad:
    print('C09 VIOLATED (param from %s):' % param.__file__)
    for b in bad:
        print('  ' + b)
    sys.exit(1)
print('ok')
