import warnings, logging
warnings.simplefilter('ignore'); logging.disable(logging.CRITICAL)
import param

def c07_group_filter():
    class Sub(param.Parameterized):
        x = param.Number(0); y = param.Number(0)
    class Top(param.Parameterized):
        a = param.ClassSelector(class_=Sub, allow_None=True)
        calls = 0
        @param.depends('a.x', 'a.y', watch=True)
        def m(self): Top.calls += 1
    t = Top(a=Sub(x=1, y=1)); Top.calls = 0
    t.a = Sub(x=1, y=2)          # differs only in the second dependency
    return None if Top.calls == 1 else f"replacing a by an object that differs only in 'a.y' called m {Top.calls} times"

def c07_other_roots():
    class Sub(param.Parameterized):
        x = param.Number(0); y = param.Number(0)
    class Top(param.Parameterized):
        a = param.ClassSelector(class_=Sub, allow_None=True)
        b = param.ClassSelector(class_=Sub, allow_None=True)
        calls = 0
        @param.depends('a.x', 'b.y', watch=True)
        def m(self): Top.calls += 1
    s2 = Sub(); t = Top(a=Sub(), b=s2)
    t.a = Sub(x=5); Top.calls = 0
    s2.y = 2
    return None if Top.calls == 1 else f"after rebinding 'a', a change of b.y called m {Top.calls} times"

def c06_inherited_entry():
    class A(param.Parameterized):
        p = param.Number(0); r = param.Number(0)
        log = []
        @param.depends('p', watch=True)
        def m(self): pass
        @param.depends('m', watch=True)
        def n(self): A.log.append('n')
    class F(A):
        @param.depends('r', watch=True)
        def m(self): pass
    f = F(); A.log.clear()
    f.r = 1; a = list(A.log); A.log.clear()
    f.p = 1; b = list(A.log)
    return None if (a, b) == (['n'], []) else f"n depends on m, F overrides m to depend on r: f.r=1 -> {a}, f.p=1 -> {b}"

def c06_function_dup():
    class O(param.Parameterized):
        p = param.Number(0)
    o = O(); calls = []
    @param.depends(o.param.p, o.param.p, watch=True)
    def f(a, b): calls.append(1)
    o.p = 5
    return None if len(calls) == 1 else f'function depending twice on the same Parameter called {len(calls)} times'

if __name__ == '__main__':
    for f in [c07_group_filter, c07_other_roots, c06_inherited_entry, c06_function_dup]:
        try: r = f()
        except Exception as e: r = f'demo crashed: {type(e).__name__}: {e}'
        print(f'{f.__name__:24s}', 'DEFECT: ' + r if r else 'ok')
