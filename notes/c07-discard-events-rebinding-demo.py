"""C07: after `with discard_events(mid): mid.s = new`, an object ABOVE `mid` that depends on 's.s.x' must follow
the object now attached (no call for the discarded event itself)."""
import sys
import param
from param.parameterized import discard_events


class S(param.Parameterized):
    x = param.Integer(0)
    s = param.Parameter()


class Q(param.Parameterized):
    s = param.Parameter()
    calls = []

    @param.depends('s.s.x', watch=True)
    def m(self):
        Q.calls.append(self.s.s.x)


old = S(x=0); mid = S(s=old); q = Q(s=mid); new = S(x=0)
with discard_events(mid):
    mid.s = new
ok = Q.calls == []
new.x = 5
ok = ok and Q.calls == [5]
old.x = 7
ok = ok and Q.calls == [5]
left = [w for ws in old._param__private.watchers.values() for l in ws.values() for w in l]
print('calls', Q.calls, 'watchers left on the detached object', len(left))
sys.exit(0 if ok and not left else 1)
