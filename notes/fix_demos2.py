"""Second batch of defect demos (found by the C01/C05/C15/C16 checks and the red team). Prints DEFECT/ok per item."""
import datetime as dt, json, math, warnings, logging
warnings.simplefilter('ignore'); logging.disable(logging.CRITICAL)
import param
from param.parameterized import batch_call_watchers

def integer_generator():
    def g(): yield 1
    class A(param.Parameterized):
        i = param.Integer(1)
    try: A().i = g; return 'Integer accepted a generator function (Number rejects it)'
    except ValueError: return None

def listselector_none_item():
    class A(param.Parameterized):
        s = param.ListSelector(default=[1], objects=[1, 2], allow_None=True)
    try: A().s = [None, 1]; return 'ListSelector(objects=[1,2], allow_None=True) accepted [None, 1]'
    except ValueError: return None

def cdr_non_tuple():
    class A(param.Parameterized):
        r = param.CalendarDateRange()
    a = A(); out = []
    try: a.r = [dt.date(2020, 1, 1), dt.date(2020, 1, 2)]; out.append('list accepted')
    except ValueError: pass
    try: a.r = {dt.date(2020, 1, 1): 1, dt.date(2020, 1, 2): 2}; out.append('dict accepted')
    except ValueError: pass
    except KeyError: out.append('dict raises KeyError')
    return '; '.join(out) or None

def cdr_datetime():
    class A(param.Parameterized):
        r = param.CalendarDateRange()
    try: A().r = (dt.datetime(2020, 1, 1, 5), dt.datetime(2020, 1, 2)); return 'CalendarDateRange accepted datetimes (CalendarDate rejects them; JSON round trip truncates them to dates)'
    except ValueError: return None

def color_newline():
    class A(param.Parameterized):
        c = param.Color('#ffffff')
    try: A().c = 'ff0000\n'; return "Color accepted 'ff0000\\n'"
    except ValueError: return None

def trigger_unknown_in_batch():
    class P(param.Parameterized):
        a = param.Number(0)
    p = P(); log = []
    p.param.watch(lambda e: log.append(e.new), ['a'])
    with batch_call_watchers(p):
        p.a = 1
        try: p.param.trigger('nosuch')
        except Exception: pass
    return None if log == [1] else f'events queued before a failing trigger were lost: log={log}'

def event_stuck():
    class P(param.Parameterized):
        e = param.Event()
    p = P()
    def boom(ev): raise RuntimeError
    p.param.watch(boom, ['e'])
    try: p.e = True
    except RuntimeError: pass
    return 'Event stays True after its watcher raised' if p.e else None

def year_below_1000():
    class A(param.Parameterized):
        d = param.Date(dt.datetime(999, 1, 2))
    try:
        kw = A.param.deserialize_parameters(A().param.serialize_parameters())
        return None if kw['d'] == dt.datetime(999, 1, 2) else f'restored {kw["d"]}'
    except ValueError as e: return f'year 999 does not round-trip: {e}'

def schema_inf_bound():
    class A(param.Parameterized):
        n = param.Number(1, bounds=(-math.inf, 3))
    s = A.param.schema()['n']
    return f'schema has non-finite bound: {s}' if any(isinstance(v, float) and math.isinf(v) for v in s.values()) else None

def schema_empty_anyof():
    class A(param.Parameterized):
        s = param.Selector(objects=[])
    s = A.param.schema()['s']
    return f'schema with empty anyOf: {s}' if s.get('anyOf') == [] else None

def schema_none_default():
    class A(param.Parameterized):
        s = param.ListSelector(default=None, objects=[1, 2])
    s = A.param.schema()['s']; ser = json.loads(A().param.serialize_parameters(subset=['s']))['s']
    ok = ser is not None or 'anyOf' in s and {'type': 'null'} in s['anyOf']
    return None if ok else f'default None serialises to null but schema is not nullable: {s}'

ALL = [integer_generator, listselector_none_item, cdr_non_tuple, cdr_datetime, color_newline, trigger_unknown_in_batch,
       event_stuck, year_below_1000, schema_inf_bound, schema_empty_anyof, schema_none_default]
if __name__ == '__main__':
    import sys
    for f in ALL:
        if len(sys.argv) > 1 and f.__name__ not in sys.argv[1:]: continue
        try: r = f()
        except Exception as e: r = f'demo crashed: {type(e).__name__}: {e}'
        print(f'{f.__name__:26s}', 'DEFECT: ' + r if r else 'ok')
