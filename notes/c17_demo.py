import warnings, logging, copy, pickle
warnings.simplefilter('ignore'); logging.disable(logging.CRITICAL)
import param
class Sub(param.Parameterized):
    x = param.Number(0)
class Top(param.Parameterized):
    a = param.ClassSelector(class_=Sub)
    n = param.Integer(0)
    @param.depends('a.x', watch=True)
    def m(self): self.n += 1
t = Top(a=Sub())
try:
    c = copy.deepcopy(t)
    c.a.x = 5
    ok = (c.n, t.n) == (1, 0)
    p = pickle.loads(pickle.dumps(t))
    p.a.x = 7
    ok = ok and (p.n, t.n) == (1, 0)
    print('ok' if ok else f'DEFECT: dependency acted wrongly: copy.n={c.n} pickled.n={p.n} original.n={t.n}')
except Exception as e:
    print('DEFECT:', type(e).__name__, e)
