"""C09 demo: an attribute-access expression is consumed by the first operator applied to it.

`m = z.imag` is an expression of its own (m.rx.value == z.rx.value.imag).  rx._resolve_accessor turns the
pending attribute access into a getattr operation *on m itself* and clears `m._method`, so after `m + 5`
(or `m > 0`, `m.rx.pipe(f)`, ...) the object `m` - and every expression, bound function, watcher or
reference that already holds it - stands for the whole value of z.
Proposed fix: notes/c09-accessor-proposed-fix.diff (record the getattr on a private copy, as __call__ does).
Exit 1 = defect present.
"""
import sys, warnings
warnings.simplefilter('ignore')
import param
from param import rx

bad = []
z = rx(7)
m = z.imag                      # 0
held = rx(10) + m               # an expression holding m as operand: 10
seen = []
m.rx.watch(seen.append)
if (m.rx.value, held.rx.value) != (0, 10):
    bad.append(f'before: m={m.rx.value!r} held={held.rx.value!r}, expected 0, 10')
e = m + 5                       # uses m as a pipeline root
if e.rx.value != 5:
    bad.append(f'(z.imag + 5) = {e.rx.value!r}, expected 5')
if m.rx.value != 0:
    bad.append(f'after `m + 5`: m.rx.value = {m.rx.value!r}, plain Python: 0')
z.rx.value = 9
if held.rx.value != 10:
    bad.append(f'after `m + 5` and z=9: (10 + m) = {held.rx.value!r}, plain Python: 10')
if e.rx.value != 5:
    bad.append(f'after z=9: (m + 5) = {e.rx.value!r}, plain Python: 5')
if any(v != 0 for v in seen):
    bad.append(f'watch callback on m received {seen!r}, plain Python: only 0')
# chained attribute access and a method call on an accessor still work
c = rx(7).real.imag
if c.rx.value != 0:
    bad.append(f'rx(7).real.imag = {c.rx.value!r}, expected 0')
b = rx(5).real
if (b.bit_length().rx.value, b.bit_length().rx.value) != (3, 3):
    bad.append('rx(5).real.bit_length() twice')
if bad:
    print('C09 VIOLATED (param from %s):' % param.__file__)
    for x in bad:
        print('  ' + x)
    sys.exit(1)
print('ok')
