"""C14 clean-tree defects outside the C14 model (see notes/c14-proposed-fixes.diff)."""
import sys
import warnings
import param
from param.parameterized import edit_constant
warnings.simplefilter('ignore')
problems = []


class P(param.Parameterized):
    c = param.Parameter(default='c0', constant=True)


# 1. as_uninitialized without try/finally
p = P()
try:
    p.param._set_name(3)          # String rejects 3 -> ValueError inside the wrapped call
except ValueError:
    pass
if not p._param__private.initialized:
    problems.append('failed _set_name leaves the object flagged as not initialized')
try:
    p.c = 'rebound'
    problems.append(f'constant c rebound by plain assignment after a failed _set_name: {p.c!r}')
except TypeError:
    pass

# 2. edit_constant clears flags before its try
q = P()


def boom(event):
    raise RuntimeError('watcher of the constant attribute failed')


q.param.watch(boom, 'c', what='constant')
try:
    with edit_constant(q):
        pass
except RuntimeError:
    pass
if P.param['name'].constant is not True:
    problems.append('class-level `name` Parameter left constant=False after edit_constant failed on entry')
r = P()
try:
    r.name = 'renamed'
    problems.append(f'name of an unrelated instance rebound: {r.name!r}')
except TypeError:
    pass

if problems:
    print('C14 VIOLATED (clean tree):')
    for x in problems:
        print('  -', x)
    sys.exit(1)
print('ok')
