"""usage: run_seeded.py [pattern ...] — run every seeded change (seeded/<ID>-*/patch.diff) against the check of its
own property (quick tier) on a scratch copy of /repo's tree (VERIF_REPO), N at a time; prints a table and records
`last_run` in each meta.json.  Nothing touches /repo."""
import concurrent.futures as cf, fnmatch, glob, json, os, shutil, subprocess, sys, tempfile

pats = sys.argv[1:] or ['*']
dirs = sorted(d for d in glob.glob('/verif/seeded/*') if os.path.isdir(d) and any(fnmatch.fnmatch(os.path.basename(d), p) for p in pats))
JOBS = int(os.environ.get('JOBS', '5'))


def one(sd):
    name = os.path.basename(sd)
    pid = name.split('-')[0]
    d = tempfile.mkdtemp(prefix=f'seeded_{name}_', dir='/tmp')
    try:
        for sub in ('param', 'numbergen'):
            shutil.copytree('/repo/' + sub, d + '/' + sub)
        r = subprocess.run(['patch', '-p1', '-s', '-d', d, '-i', sd + '/patch.diff'], capture_output=True, text=True)
        if r.returncode != 0:
            return name, 'patch no longer applies to /repo HEAD'
        extra = json.load(open(sd + '/meta.json')).get('also_run', []) if os.path.exists(sd + '/meta.json') else []
        res = {}
        for chk in [pid] + extra:
            r = subprocess.run(['./check', chk, '--tier', 'quick'], cwd='/verif', env=dict(os.environ, VERIF_REPO=d), capture_output=True, text=True)
            viol = [l for l in r.stdout.splitlines() if l.startswith('VIOLATION')]
            res[chk] = ('missed' if r.returncode == 0 else f'infra-error rc={r.returncode}' if r.returncode != 1 or not viol else
                        'caught (no-failing-input-found)' if all('no-failing-input-found' in v for v in viol) else 'caught (counterexample)')
        return name, res
    finally:
        shutil.rmtree(d, ignore_errors=True)
        shutil.rmtree('/verif/replays/scratch/' + os.path.basename(d), ignore_errors=True)


with cf.ThreadPoolExecutor(JOBS) as ex:
    for name, res in ex.map(one, dirs):
        print(name, res, flush=True)
        mp = f'/verif/seeded/{name}/meta.json'
        if os.path.exists(mp) and isinstance(res, dict):
            m = json.load(open(mp))
            m['last_run'] = res
            json.dump(m, open(mp, 'w'), indent=1)
        elif os.path.exists(mp):
            m = json.load(open(mp)); m['last_run'] = res; json.dump(m, open(mp, 'w'), indent=1)
