"""Demos of the defects repaired by the fix: commits of round 3 (run with PYTHONPATH=<tree>): prints DEFECT on the old tree, ok on the fixed one."""
import param


def c03_slot_watcher_list_mutated():
    """4ea59ea: Parameter._trigger_event iterated over the live watcher list of the attribute"""
    class P(param.Parameterized):
        x = param.Integer(0, bounds=(0, 10))
    p = P(); log = []; ws = {}
    def a(e): log.append('a'); p.param.unwatch(ws['a'])      # a one-shot watcher
    def b(e): log.append('b')
    def c(e): log.append('c')
    for n, f in (('a', a), ('b', b), ('c', c)):
        ws[n] = p.param.watch(f, 'x', what='bounds')
    p.param.x.bounds = (0, 5)
    return None if log == ['a', 'b', 'c'] else f"watchers a,b,c of x.bounds, a removes itself: called {log} (b skipped)"


def c03_slot_watcher_registered_in_callback():
    class P(param.Parameterized):
        x = param.Integer(0, bounds=(0, 10))
    p = P(); log = []
    def late(e): log.append('late')
    def a(e):
        log.append('a')
        if len(log) < 50:
            p.param.watch(late, 'x', what='bounds')
    p.param.watch(a, 'x', what='bounds')
    p.param.x.bounds = (0, 5)
    return None if log == ['a'] else f"a watcher registered by a callback was invoked for the event being dispatched: {log}"


def c16_selector_schema_unnamed_object():
    """selector_schema built anyOf from objects.values() (the names) but enum from the objects"""
    class P(param.Parameterized):
        s = param.Selector(objects={'a': 1}, check_on_set=False)
    p = P(); p.s = 'x'
    sch = p.param.schema()['s']
    types = [t['type'] for t in sch.get('anyOf', [])]
    return None if 'string' in types else f"state s='x' is valid, schema {sch} has no string alternative"


if __name__ == '__main__':
    for f in [c03_slot_watcher_list_mutated, c03_slot_watcher_registered_in_callback, c16_selector_schema_unnamed_object]:
        try: r = f()
        except Exception as e: r = f'demo crashed: {type(e).__name__}: {e}'
        print(f'{f.__name__:44s}', 'DEFECT: ' + r if r else 'ok')
