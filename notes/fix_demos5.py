"""Demos of the defects repaired by the fix: commits of round 3 (run with PYTHONPATH=<tree>): prints DEFECT on the old tree, ok on the fixed one."""
import param


def c03_slot_watcher_list_mutated():
    """4ea59ea: Parameter._trigger_event iterated over the live watcher list of the attribute"""
    class P(param.Parameterized):
        x = param.Integer(0, bounds=(0, 10))
    p = P(); log = []; ws = {}
    def a(e): log.append('a'); p.param.unwatch(ws['a'])      # a one-shot watcher
    def b(e): log.append('b')
    def c(e): log.append('c')
    for n, f in (('a', a), ('b', b), ('c', c)):
        ws[n] = p.param.watch(f, 'x', what='bounds')
    p.param.x.bounds = (0, 5)
    return None if log == ['a', 'b', 'c'] else f"watchers a,b,c of x.bounds, a removes itself: called {log} (b skipped)"


def c03_slot_watcher_registered_in_callback():
    class P(param.Parameterized):
        x = param.Integer(0, bounds=(0, 10))
    p = P(); log = []
    def late(e): log.append('late')
    def a(e):
        log.append('a')
        if len(log) < 50:
            p.param.watch(late, 'x', what='bounds')
    p.param.watch(a, 'x', what='bounds')
    p.param.x.bounds = (0, 5)
    return None if log == ['a'] else f"a watcher registered by a callback was invoked for the event being dispatched: {log}"


def c16_selector_schema_unnamed_object():
    """selector_schema built anyOf from objects.values() (the names) but enum from the objects"""
    class P(param.Parameterized):
        s = param.Selector(objects={'a': 1}, check_on_set=False)
    p = P(); p.s = 'x'
    sch = p.param.schema()['s']
    types = [t['type'] for t in sch.get('anyOf', [])]
    return None if 'string' in types else f"state s='x' is valid, schema {sch} has no string alternative"


def _sel(objects):
    class P(param.Parameterized):
        s = param.Selector(objects=objects)
    return P.param.s


def c18_remove_equal_not_identical():
    """fe91b28: remove() searched the list with == but filtered the names with `is`"""
    p = _sel({'a': int('1000'), 'b': int('2000')})
    p.objects.remove(int('1000'))
    return None if p.names == {'b': 2000} else f"removed 1000 (an equal, not identical int): list {list(p.objects)}, names {p.names}"


def c18_extend_iterator():
    """d598c2c: extend(iterator) consumed the iterator for the proxy and left _objects unchanged"""
    p = _sel([1, 2])
    p.objects.extend(iter([3, 4]))
    return None if list(p.objects) == [1, 2, 3, 4] else f"extend(iter([3, 4])): a fresh objects view is {list(p.objects)}"


def c18_update_mapping():
    """d028488: update() only treated dict as a mapping; any other Mapping was iterated as pairs (its keys)"""
    import collections
    p = _sel({'a': 1})
    try:
        p.objects.update(collections.UserDict({'xy': 5}))
    except Exception as e:
        return f"update(UserDict({{'xy': 5}})) raised {type(e).__name__}: {e}"
    return None if p.names == {'a': 1, 'xy': 5} else f"update(UserDict({{'xy': 5}})) -> names {p.names}"


def c18_pop_default():
    """703bb42: pop(missing_key, default) removed the *default* from the objects (or raised ValueError)"""
    p = _sel({'a': None, 'b': 2})
    try:
        r = p.objects.pop('nokey', None)
    except Exception as e:
        return f"pop('nokey', None) raised {type(e).__name__}"
    return None if (r is None and list(p.objects) == [None, 2]) else f"pop('nokey', None) -> {r!r}, objects now {list(p.objects)}, names {p.names}"


def c05_class_trigger_inherited_event():
    """083638b: Sub.param.trigger('e') / Sub.param.update(e=True) on a class that inherits the Event"""
    class Base(param.Parameterized):
        e = param.Event()
        x = param.Integer(0, bounds=(0, 5))
    class Sub(Base):
        pass
    log = []
    Sub.param.watch(lambda ev: log.append(ev.new), 'e')
    try:
        Sub.param.update(x=99, e=True)          # rejected
    except ValueError:
        pass
    Sub.e = True                                # must fire the watcher and reset itself
    stuck_sub = (log != [True]) or Sub.e is not False
    class Sub2(Base):
        pass
    Sub2.param.trigger('e')                     # successful
    Base.e = True
    stuck_base = Base.e is not False            # the ancestor's Event must still reset itself
    if stuck_sub or stuck_base:
        return f"after a rejected Sub.param.update(x=99, e=True): Sub.e=True fired {log}, reads {Sub.e}; after Sub2.param.trigger('e'): Base.e=True reads {Base.e}"
    return None


def c02_rejected_class_assignment_copy():
    """1e41598: `B.x = bad` copied the inherited Parameter into B before validating"""
    class A(param.Parameterized):
        x = param.Integer(1, bounds=(0, 10))
    class B(A):
        pass
    try:
        B.x = 'bad'
    except ValueError:
        pass
    A.x = 5
    return None if B.x == 5 and 'x' not in B.__dict__ else f"after the rejected B.x = 'bad': A.x = 5 gives B.x == {B.x} (B has its own copy: {'x' in B.__dict__})"


def c08_relink_per_instance_false():
    """c4d8cb2: with per_instance=False the Parameter's owner is the class, and `__set__` relinked through
    `self.owner.param._update_ref` -> AttributeError on a late link, a relink and (since c44323d) a plain override"""
    class S(param.Parameterized):
        v = param.Integer(1)
        w = param.Integer(5)
    class T(param.Parameterized):
        a = param.Integer(0, allow_refs=True, per_instance=False)
    s = S()
    problems = []
    t = T()
    try:
        t.a = s.param.v                          # late link
        s.v = 2
        if t.a != 2:
            problems.append(f'late link does not follow its source: t.a == {t.a}')
        t.a = s.param.w                          # relink
        s.v = 3
        s.w = 6
        if t.a != 6 or s.param.watchers.get('v', {}).get('value'):
            problems.append(f'relink: t.a == {t.a}, watchers left on the old source: {s.param.watchers.get("v")}')
        t.a = 9                                  # plain override of a linked value
        s.w = 7
        if t.a != 9 or 'a' in t._param__private.refs:
            problems.append(f'override: t.a == {t.a}, refs {list(t._param__private.refs)}')
    except AttributeError as e:
        problems.append(f'assignment to the linked per_instance=False parameter raised AttributeError: {e}')
    t2 = T(a=s.param.v)                          # constructor link, then override
    try:
        t2.a = 4
    except AttributeError as e:
        problems.append(f'override of a constructor link raised AttributeError: {e}')
    return '; '.join(problems) or None


def c12_subclass_copy_shares_containers():
    """ba52d53: `B.s = v` copied the inherited Parameter shallowly: B's and A's Selector shared one objects list"""
    class A(param.Parameterized):
        s = param.Selector(objects=[1, 2, 3])
    class B(A):
        pass
    B.s = 2
    B.param.s.objects.append(99)
    return None if A.param.s.objects == [1, 2, 3] else f"B.param.s.objects.append(99) after B.s = 2: A.param.s.objects == {list(A.param.s.objects)}"


def c17_multi_name_watcher_after_copy():
    """df4891c: __setstate__ rebuilt a watcher of several parameters once per parameter list"""
    import copy, pickle
    calls = []
    class F(param.Parameterized):
        a = param.Integer(0)
        b = param.Integer(0)
        @param.depends('a', 'b', watch=True)
        def m(self):
            calls.append(self)
    globals().update(F=F)                                # pickle finds the class by module attribute
    F.__qualname__ = 'F'
    f = F()
    bad = []
    for name, c in (('deepcopy', copy.deepcopy(f)), ('pickle', pickle.loads(pickle.dumps(f)))):
        del calls[:]
        c.param.update(a=c.a + 1, b=c.b + 1)
        if len(calls) != 1:
            bad.append(f'{name}: {len(calls)} calls')
    return None if not bad else "one batched update(a=.., b=..) on the copy ran the depends('a','b') method: " + ', '.join(bad)


def c17_depth2_dependency_copy():
    """a036968: the parent-notification callback of depends('mid.leaf.x') was a local closure: not picklable, and bound to the original after deepcopy"""
    import copy, pickle
    log = []
    class Leaf(param.Parameterized):
        x = param.Integer(0)
    class Mid(param.Parameterized):
        leaf = param.ClassSelector(class_=Leaf)
    class Top(param.Parameterized):
        mid = param.ClassSelector(class_=Mid)
        @param.depends('mid.leaf.x', watch=True)
        def m(self):
            log.append(self)
    globals().update(Leaf=Leaf, Mid=Mid, Top=Top)      # pickle finds classes by module attribute
    for K in (Leaf, Mid, Top):
        K.__qualname__ = K.__name__
    t = Top(mid=Mid(leaf=Leaf()))
    try:
        p = pickle.loads(pickle.dumps(t))
    except Exception as e:
        return f'pickle.dumps raises {type(e).__name__}: {str(e)[:80]}'
    for name, c in (('deepcopy', copy.deepcopy(t)), ('pickle', p)):
        c.mid.leaf = Leaf(x=5)
        del log[:]
        c.mid.leaf.x = 7
        if [o is c for o in log] != [True]:
            return f"{name}: after replacing c.mid.leaf, c.mid.leaf.x = 7 called m on {['copy' if o is c else 'original' if o is t else '?' for o in log]}"
    return None


def c12_instance_copy_of_blanking_parameter():
    """8d56a4b: the per-instance copy of a Parameter was made by copy.copy, i.e. through __getstate__, which Path blanks"""
    import os, tempfile
    d = tempfile.mkdtemp()
    open(os.path.join(d, 'f.txt'), 'w').close()
    class H(param.Parameterized):
        p = param.Path(default=None, search_paths=[d], check_exists=True)
    h = H()
    try:
        h.p = 'f.txt'
    except OSError as e:
        return f"H(p='f.txt') resolves but h.p = 'f.txt' raises: the instance Parameter's search_paths == {h.param.p.search_paths}"
    return None if h.param.p.search_paths == [d] else f'instance search_paths == {h.param.p.search_paths}'


def c05_failed_watch_registers_nothing():
    """e53c48c: _register_watcher registered the names before the unknown one and then raised"""
    class P(param.Parameterized):
        a = param.Integer(0)
    p = P(); log = []
    try:
        p.param.watch(lambda e: log.append(e.name), ['a', 'nosuch'])
    except ValueError:
        pass
    p.a = 1
    return None if log == [] else f"watch(cb, ['a', 'nosuch']) raised, yet p.a = 1 called the callback: {log}"


def c17_copy_inside_open_batch():
    """534cb04: _InstancePrivate.__getstate__ copied the dispatch state, so a copy made inside a batch stayed in batch mode"""
    import copy, pickle
    log = []
    class G(param.Parameterized):
        x = param.Integer(0)
        @param.depends('x', watch=True)
        def m(self):
            log.append(self)
    globals().update(G=G)
    G.__qualname__ = 'G'
    bad = []
    for name, mk in (('deepcopy', copy.deepcopy), ('pickle', lambda o: pickle.loads(pickle.dumps(o)))):
        g = G()
        with param.parameterized.batch_call_watchers(g):
            g.x = 1
            c = mk(g)
        if [o is g for o in log] != [True]:
            bad.append(f'{name}: leaving the batch called m on {len(log)} objects, not once on the original')
        del log[:]
        c.x = 5
        if [o is c for o in log] != [True]:
            bad.append(f'{name}: c.x = 5 on the copy called m {len(log)} times (the copy is still in batch mode: _BATCH_WATCH == {c.param._BATCH_WATCH})')
        del log[:]
    return None if not bad else '; '.join(bad)


def c03_stale_old_after_class_default_reassigned():
    """fix e80cc81: `old` of an instance assignment came from the per-instance Parameter copy's snapshot of the class default"""
    import param
    class A(param.Parameterized):
        x = param.Number(1)
    a = A(); a.param.x            # the per-instance Parameter object now exists
    A.x = 7
    log = []
    a.param.watch(lambda e: log.append((e.old, e.new)), 'x', onlychanged=False)
    a.x = 9
    bad = []
    if log != [(7, 9)]:
        bad.append(f'a.x read 7, a.x = 9 delivered {log}')
    b = A(); b.param.x; A.x = 3
    del log[:]
    b.param.watch(lambda e: log.append((e.old, e.new)), 'x')
    b.x = 7                        # a change from 3 (7 was the class default when the copy was made)
    if log != [(3, 7)]:
        bad.append(f'b.x read 3, b.x = 7 delivered {log} to a changes-only watcher')
    return None if not bad else '; '.join(bad)


def c03_dynamic_value_read_inside_watcher():
    """fix cc817e8: a watcher reading a Dynamic parameter that was just assigned a callable got the raw callable"""
    import param
    class A(param.Parameterized):
        x = param.Number(0)
    a = A()
    seen = []
    a.param.watch(lambda e: seen.append(a.x), 'x')
    a.x = lambda: 4
    return None if seen == [4] and a.x == 4 else f'the watcher read {seen!r}, afterwards a.x == {a.x!r}'


if __name__ == '__main__':
    for f in [c03_slot_watcher_list_mutated, c03_slot_watcher_registered_in_callback, c16_selector_schema_unnamed_object,
              c18_remove_equal_not_identical, c18_extend_iterator, c18_update_mapping, c18_pop_default,
              c05_class_trigger_inherited_event, c05_failed_watch_registers_nothing, c02_rejected_class_assignment_copy, c08_relink_per_instance_false,
              c12_subclass_copy_shares_containers, c17_multi_name_watcher_after_copy, c17_depth2_dependency_copy,
              c12_instance_copy_of_blanking_parameter, c17_copy_inside_open_batch,
              c03_stale_old_after_class_default_reassigned, c03_dynamic_value_read_inside_watcher]:
        try: r = f()
        except Exception as e: r = f'demo crashed: {type(e).__name__}: {e}'
        print(f'{f.__name__:44s}', 'DEFECT: ' + r if r else 'ok')
