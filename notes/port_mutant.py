"""usage: port_mutant.py <seeded-dir-name> <python file with `def mutate(src: str) -> str`> [relative source path]
Re-make seeded/<name>/patch.diff against /repo's current tree: applies mutate() to the source file and diffs."""
import importlib.util, json, os, subprocess, sys, tempfile, shutil
name, modpath = sys.argv[1], sys.argv[2]
rel = sys.argv[3] if len(sys.argv) > 3 else 'param/parameterized.py'
spec = importlib.util.spec_from_file_location('m', modpath); m = importlib.util.module_from_spec(spec); spec.loader.exec_module(m)
d = tempfile.mkdtemp(prefix='port_')
for side in 'ab':
    os.makedirs(os.path.join(d, side, os.path.dirname(rel)))
    shutil.copy('/repo/' + rel, os.path.join(d, side, rel))
src = open(os.path.join(d, 'b', rel)).read()
new = m.mutate(src)
assert new != src, 'mutation did not change anything'
open(os.path.join(d, 'b', rel), 'w').write(new)
r = subprocess.run(['diff', '-u', 'a/' + rel, 'b/' + rel], cwd=d, capture_output=True, text=True)
open(f'/verif/seeded/{name}/patch.diff', 'w').write(r.stdout)
shutil.rmtree(d)
head = subprocess.run(['git', '-C', '/repo', 'rev-parse', '--short', 'HEAD'], capture_output=True, text=True).stdout.strip()
mp = f'/verif/seeded/{name}/meta.json'
meta = json.load(open(mp)); meta['note'] = f'patch.diff re-made against /repo {head} (later fix: commits rewrote the lines it edits); same mutation: ' + m.WHAT
json.dump(meta, open(mp, 'w'), indent=1)
print(name, 'ported,', len(r.stdout.splitlines()), 'diff lines')
