"""Run with PYTHONPATH=<tree> python C19-inspect-stale-instance-parameter-demo.py (exit 1 = defect present).
An instance whose per-instance Parameter object exists (inst.param['x'] was looked at) and which has no value of
its own: after the class default is replaced by a generator, attribute access reads the class generator, but
inspect_value / force_new_dynamic_value still answer from the per-instance copy's old default."""
import sys, warnings, logging
warnings.simplefilter('ignore'); logging.disable(logging.CRITICAL)
import param
problems = []

class Counter:
    def __init__(self): self.k = 0
    def __call__(self):
        self.k += 1
        return self.k

class A(param.Parameterized):
    x = param.Dynamic(default=4)

a = A()
a.param['x']                      # the per-instance Parameter object comes into being
A.x = Counter()                   # class default becomes a generator
v = a.x                           # 1: the class generator
i = a.param.inspect_value('x')
if i != v:
    problems.append(f'a.x == {v!r} but inspect_value gives {i!r}')
f = a.param.force_new_dynamic_value('x')
if f == 4:
    problems.append(f'force_new_dynamic_value gives the old default {f!r}, no value was generated')
for q in problems: print('PROBLEM', q)
sys.exit(1 if problems else 0)
