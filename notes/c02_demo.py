import warnings, logging
warnings.simplefilter('ignore'); logging.disable(logging.CRITICAL)
import param
class S(param.Parameterized):
    v = param.Number(1)
class T(param.Parameterized):
    a = param.Number(0, bounds=(0, 10), allow_refs=True)
    k = param.Number(0, bounds=(0,10), allow_refs=True, constant=True)
def wc(o): return sum(len(v.get('value', [])) for v in o._param__private.watchers.values())
s1 = S(v=1); s2 = S(v=99)
t = T(a=s1.param.v)
r=[]
try: t.a = s2.param.v
except ValueError: pass
s1.v = 2
if t.a != 2: r.append(f'(a) after rejected reference old source no longer drives: t.a={t.a}')
if wc(s2): r.append('(a) rejected source keeps a watcher')
t = T(a=s1.param.v)
try: t.a = 50
except ValueError: pass
s1.v = 3
if t.a != 3: r.append(f'(b) rejected plain value dropped the link: t.a={t.a}')
s1b = S(v=5)
t = T(k=s1.param.v)
try: t.k = s1b.param.v
except TypeError: pass
s1.v = 4
if t.k != 4: r.append(f'(c) constant guard ran after relink: t.k={t.k}')
print('DEFECT: ' + '; '.join(r) if r else 'ok')
